"""C13 — advertised thread safety: concurrent API use is serialised and never deadlocks (DESIGN.md §4 C13, design/C13.md)."""
import json, os, re, sys
from vlib import common as C
from vlib.tables import run_extractor

MANIFEST = {
    "text": "Lean theorems about M, a transcription of libcoap's global lock (coap_lock_lock_func / coap_lock_unlock_func in both variants, "
            "the four callback macros, the release window coap_lock_unlock; blocking wait; coap_lock_lock inside library code): "
            "for any number of threads running any well-nested programs under any interleaving — "
            "mutual_exclusion / critical_sections_exclusive (library code and lock-keeping callbacks of different threads never overlap; "
            "re-entry only by the holder from inside a callback), balanced (a returned top-level API call leaves the mutex free, "
            "in_callback = lock_count = 0), reentrancy_ok / no_self_deadlock (a callback may call the API), no_deadlock / progress / "
            "not_blocked_once_others_return, no_assert_fails. T1 facts regenerated from the tree on every run and proved by decide: "
            "advertised_implies_compiled (config probes of the CMake build and of the emulated autotools configuration), "
            "api_sites_bracketed (all 71 COAP_API wrappers lock / call the worker / unlock on every path), callback_sites_wrapped_partial "
            "(request, response, NACK, event, ping, pong handlers are invoked through the macros), internal_windows_balanced (a "
            "path-sensitive lock-depth analysis of every function definition of the compiled sources: each function that releases or "
            "takes the lock itself — the window around epoll_wait in coap_io_process_with_fds_lkd, the callback-release sites, "
            "coap_new_context, the wrappers — reaches every return / loop back-edge at its entry depth, every re-lock failure action "
            "leaves the function, nothing inside a release window touches the context); window_mutex_free / "
            "api_call_enters_during_window (a thread waiting inside coap_io_process does not hold the mutex; another thread's API "
            "call gets in). A repeated coap_startup() is a token of M that application code may issue anywhere (repeated_startup_ignored: "
            "it leaves global_lock and its mutex as they are, whoever holds them — all theorems quantify over programs containing it). "
            "no_api_call_under_lock (T1: none of the ~580 functions that run under the lock — the *_lkd workers and everything reached "
            "from them by direct calls, e.g. the keepalive / retransmission / session-expiry work of coap_io_prepare_io_lkd, and the "
            "wrappers between lock and unlock — calls a lock-taking public API function) with lib_api_call_deadlocks_or_faults "
            "(in M such a call blocks on the caller's own mutex, or under a lock-keeping callback violates the lock_count assert). "
            "M is tied to the compiled code by "
            "differential runs of the real macros and lock functions: single-thread token sequences and 2..8 real threads under "
            "turn-based schedules, both lock variants; the real coap_io_process() is interrupted by a signal while another thread "
            "holds the lock in an event callback (must re-lock before returning); a failing coap_new_context() must leave the lock "
            "free; the token sequences and schedules contain calls of the library's real coap_startup(). Observation, not theorem "
            "(lkio): the real I/O thread is made to do its timer-driven work (keepalive ping of an idle UDP / TCP client session, "
            "retransmission, idle server session expiry) while 1..3 workers call the API and every callback re-enters it — a watchdog "
            "demands progress of every thread, no lock-owner assert, no API call completing inside another thread's lock-keeping "
            "callback; schedules are also judged for overlap of critical sections from the implementation's own trace. partial: race freedom of the compiled C outside the lock protocol is only observed "
            "by a ThreadSanitizer smoke run (support, not proof); two open findings (auxiliary callbacks invoked without the macro; "
            "unsynchronised pre-check read of global_lock) are reported as KNOWN-FINDING.",
    "note": "Trusted: Lean kernel (+ propext, Classical.choice, Quot.sound), pthread mutex semantics, the T1 probe and static scan "
            "(a heuristic statement parser over gcc -E -fdirectives-only output), the harnesses/generators, the hand transcription M "
            "(checked against the compiled code on the sequences/schedules run only). Model decisions A1 (token atomicity), A2 "
            "(coap_startup called), nesting depth < 2^32-1; the link from 'the tree's threads run well-nested programs' to the source is "
            "the static scan, not a proof. Autotools is emulated through CMake with configure.ac's AC_DEFINE values.",
    "design_ref": "DESIGN.md §4 C13; design/C13.md",
}
LEAN_MODULES = ["CoapVerif.Props.C13"]
NAMESPACE = "Coap.C13"
REQUIRED_THEOREMS = ["advertised_implies_compiled", "advertised_implies_compiled_all", "api_sites_bracketed",
                     "callback_sites_wrapped_partial", "internal_windows_balanced", "internal_windows_seen",
                     "window_mutex_free", "api_call_enters_during_window", "mutual_exclusion", "critical_sections_exclusive", "balanced",
                     "balanced_quiescent", "reentrancy_ok", "no_self_deadlock", "no_deadlock",
                     "not_blocked_once_others_return", "progress", "no_assert_fails", "reentry_only_by_owner_in_callback",
                     "repeated_startup_ignored", "no_api_call_under_lock", "held_functions_seen", "lib_api_call_deadlocks_or_faults"]
RULE = ("(1) the build-configuration probes of the tree (CMake default; autotools defaults emulated with its AC_DEFINE values), "
        "(2) one line per COAP_API wrapper, per application-callback invocation site and per function that releases / takes the "
        "lock itself (lock balance along every path of its statement tree) found by the static scan, "
        "(3) random well-nested token sequences (API entry/exit, the four callback macros, release windows, nesting depth up to 40) run on one "
        "thread through the real macros and lock functions of both variants, (4) 2..8 real threads with well-nested programs "
        "run under random turn-based schedules and then to completion, (5) TSan smoke runs (support only), "
        "(6) the real I/O loop interrupted by a signal (EINTR from epoll_wait) while another thread holds the lock; a failing "
        "coap_new_context(); (7) one line per function that runs under the lock (calls of the lock-taking public API made there); "
        "token S = a repeated coap_startup() at random application-level points of (3) and (4); (8) the real I/O loop doing "
        "timer-driven work (4 scenarios x both lock variants, 1..3 API-calling workers, all callbacks re-entering) under a watchdog; "
        "non-trivial = a sequence/schedule in which the mutex is taken at least once and a callback macro is executed, or a "
        "site / configuration line")
TRUSTED_BASE = ["Lean 4.33 kernel; axioms allowed: propext, Classical.choice, Quot.sound (audited per theorem each run)",
                "pthread mutex semantics (a mutex is held by at most one thread; lock blocks while it is held)",
                "T1: extract/threadcfg.c (config probe), extract/apiscan.py (static scan: a heuristic C statement parser over "
                "`gcc -E -fdirectives-only` output; it can miss an unusual control-flow shape, it cannot make a theorem check), "
                "extract/lockbal.py (statement-tree parser + abstract interpretation of the lock depth relative to the function entry "
                "over sets of (depth, branch facts); self-tested on 17 synthetic functions before every scan; calls are transparent, "
                "so a function that hands the lock over to its caller would be reported, not followed)",
                "extract/lockbal.py held_functions: which functions run under the lock is a may-analysis over DIRECT calls (roots: "
                "*_lkd, functions asserting / releasing the lock, code after a coap_lock_lock); calls through function pointers are "
                "not followed; 7 synthetic cases self-tested before every scan",
                "harness/lockseq.c, harness/thrsmoke.c, generators, string comparison",
                "M (CoapVerif/Model/Lock.lean) is a hand transcription of coap_threadsafe.c and of the macros of "
                "coap_threadsafe_internal.h; checked against the compiled code on the sequences and schedules run"]
ASSUMPTIONS = ["library code never calls a lock-taking public API function itself (T1 no_api_call_under_lock over direct calls; "
               "dynamically only on the timer / receive paths the lkio and smoke scenarios reach)",
               "A1 one call of coap_lock_lock_func / coap_lock_unlock_func / one in_callback update is one atomic step (argued in Model/Lock.lean)",
               "A2 coap_startup() has been called once before the threads start (coap_started = 1); later calls are tokens of M; "
               "coap_cleanup() is not called while threads use the library",
               "callback nesting depth < 2^32 - 1 (in_callback and lock_count are uint32_t)",
               "every thread runs a well-nested program: application code only calls COAP_API functions, library code only "
               "invokes application code through the four callback macros — established for the tree by the static scan (T1), "
               "for the 71 wrappers and the listed callback types; library code gives the lock up only in balanced release windows "
               "(T1 internal_windows_balanced, for the configuration compiled here: epoll; the select() variant of the I/O loop is not scanned)",
               "data-race freedom of the compiled C outside the lock protocol (e.g. the unsynchronised read of "
               "global_lock.in_callback/pid at the top of coap_lock_lock_func) is TSan-observed only",
               "compiled Lean definitions agree with the kernel's reading of them"]
SPEC_DECISIONS = ["D13 whether the mutex is actually released during a *_release callback is not prescribed (nested under a lock-keeping callback libcoap keeps it)",
                  "D14 an object that belongs to no context (queue node without session, resource/endpoint without context) is outside "
                  "'API use on the same context': its *_lkd worker may run unlocked",
                  "D15 the callback types that must be wrapped are those the property enumerates (request, response, NACK, event, ping, pong); "
                  "unwrapped auxiliary callbacks are reported as an open finding, not silently accepted",
                  "D17 inside the release window around the blocking wait the read of ctx->epfd (written only by coap_new_context before the "
                  "context is visible and by coap_free_context) is not an access to shared library state; the failure action of a re-lock "
                  "(dead code under A2) only has to leave the function: return, goto, assert(0) or abort()",
                  "D16 the logging sink (coap_log_handler_t) and the PRNG replacement (coap_rand_func_t) are not application callbacks in the property's sense"]
RUN_KW = {"timeout": 900}

GEN = os.path.join(C.LEAN, "CoapVerif", "Generated", "ThreadCfg.lean")
AUX_CALLBACKS = {"save_seq_num_func", "resource_deleted", "observe_deleted", "dyn_resource_added", "observe_added",
                 "track_observe_value", "additional_tls_setup_call_back", "validate_id_call_back"}
_state = {}


# ----------------------------------------------------------------------------------------------- T1
def autotools_defaults():
    """what ./configure writes into config.h by default, read from configure.ac"""
    s = open(os.path.join(C.REPO, "configure.ac")).read()
    out = {}
    for macro, var in (("COAP_THREAD_SAFE", "enable_thread_safe"), ("COAP_THREAD_RECURSIVE_CHECK", "enable_recursive_detection")):
        m = re.search(r"AC_DEFINE\(%s,\s*([^,\)]+)" % macro, s)
        d = re.search(r"\[%s=\"\$enableval\"\],\s*\[%s=\"(\w+)\"\]" % (var, var), s)
        out[macro] = m.group(1).strip().strip("[]") if (m and d and d.group(1) == "yes") else None
    return out


def at_defs():
    return ["-D%s=%s" % (k, v) for k, v in sorted(autotools_defaults().items()) if v is not None]


OFF = ["-DENABLE_THREAD_SAFE=OFF", "-DENABLE_THREAD_RECURSIVE_LOCK_CHECK=OFF"]


def builds(flavor="asan"):
    """{name: (bdir, extra compile flags for TUs built against it)}"""
    b = {"cmake": (C.build_libcoap(flavor), [])}
    d = at_defs()
    b["autotools"] = (C.build_libcoap(flavor, extra_defs=" ".join(d), cmake_args=OFF, tag="at"), d)
    return b


def probe(bdir, defs):
    return run_extractor("threadcfg", bdir, extra=["-Wl,--wrap=pthread_mutex_lock,--wrap=pthread_mutex_trylock"] + list(defs))


def compiled_in(p):
    return bool(p["if"]) and bool(p["linked"]) and p["mutex_calls"] > 0


def scan(bdir):
    src = os.path.join(C.VERIF, "extract", "apiscan.py")
    newest = max(os.path.getmtime(src), os.path.getmtime(os.path.join(C.VERIF, "extract", "lockbal.py")))
    out = os.path.join(bdir, "x_apiscan.json")
    with C.Lock("extract-apiscan"):
        if os.path.exists(out) and os.path.getmtime(out) >= newest:
            return json.load(open(out))
        r = C.sh([sys.executable, src, bdir, C.REPO], stderr=None)
        if r.returncode != 0:
            raise C.BuildError("static scan failed:\n" + r.stdout[-3000:])
        data = json.loads(r.stdout)
        json.dump(data, open(out, "w"))
        return data


def lstr(s):
    return '"' + s.replace("\\", "\\\\").replace('"', '\\"') + '"'


def lb(b):
    return "true" if b else "false"


def number_sites(cbs):
    """ordinal of a callback site among those with the same (file, func, callee)"""
    seen = {}
    for c in cbs:
        k = (c["file"], c["func"], c["callee"])
        c["k"] = seen.get(k, 0)
        seen[k] = c["k"] + 1
    return cbs


def render(cfgs, sc):
    L = ["import CoapVerif.Model.Lock",
         "/- GENERATED by props/C13.py extract() (T1) from the current tree: extract/threadcfg.c run against each build",
         "   configuration, extract/apiscan.py over the compiled sources.  Do not edit. -/",
         "namespace Coap.Generated", "open Coap.Lock", ""]
    L.append("def buildCfgs : List BuildCfg := [")
    L.append(",\n".join('  { name := %s, define := %s, ifHolds := %s, lockLinked := %s, advertised := %s, recursiveCheck := %s }' % (
        lstr(n), lstr(p["define"]), lb(p["if"]), lb(p["linked"] and p["mutex_calls"] > 0), lb(p["advertised"]), lb(p["rc"])) for n, p in cfgs))
    L.append("]")
    d = dict(cfgs)["cmake"]
    L.append("/-- the default CMake configuration -/")
    L.append("def advertised : Bool := %s" % lb(d["advertised"]))
    L.append("def lockingCompiledIn : Bool := %s" % lb(compiled_in(d)))
    L.append("")
    L.append("def apiSites : List ApiSite := [")
    L.append(",\n".join('  { file := %s, name := %s, locks := %s, callsLkd := %s, unlocks := %s }' % (
        lstr(a["file"]), lstr(a["name"]), lb(a["locks"]), lb(a["callsLkd"]), lb(a["unlocks"])) for a in sc["api"]))
    L.append("]")
    L.append("")
    L.append("def callbackSites : List CbSite := [")
    L.append(",\n".join('  { file := %s, func := %s, callee := %s, k := %d, listed := %s, wrapped := %s }' % (
        lstr(c["file"]), lstr(c["func"]), lstr(c["callee"]), c["k"], lb(c["listed"]), lb(c["wrapped"])) for c in sc["callbacks"]))
    L.append("]")
    L.append("")
    L.append("/-- every function (of %d scanned) that releases / takes the global lock itself -/" % sc["functions_scanned"])
    L.append("def lockWindows : List LockFn := [")
    L.append(",\n".join('  { file := %s, name := %s, api := %s, entryHeld := %s, unlocks := %d, locks := %d, cbRelease := %d, windows := %d,\n'
                        '    exitsBalanced := %s, loopsBalanced := %s, failLeaves := %s, ordered := %s, quiet := %s }' % (
        lstr(f["file"]), lstr(f["name"]), lb(f["api"]), lb(f["entryHeld"]), f["unlocks"], f["locks"], f["cbRelease"], f["windows"],
        lb(f["exitsBalanced"]), lb(f["loopsBalanced"]), lb(f["failLeaves"]), lb(f["ordered"]), lb(f["quiet"])) for f in sc["lockfns"]))
    L.append("]")
    L.append("")
    L.append("/-- every function that has code running under the global lock (entered held / takes it itself), with the number of")
    L.append("    call sites it executes there and how many of them call a lock-taking public API function -/")
    L.append("def heldFns : List HeldFn := [")
    L.append(",\n".join('  { file := %s, name := %s, entersHeld := %s, heldCalls := %d, apiCalls := %d }' % (
        lstr(f["file"]), lstr(f["name"]), lb(f["entry"] == "held"), f["heldCalls"], f["apiCalls"]) for f in sc["heldfns"]))
    L.append("]")
    L.append("")
    L.append("end Coap.Generated")
    return "\n".join(L) + "\n"


def t1():
    if "t1" in _state:
        return _state["t1"]
    b = builds()
    cfgs = [(n, probe(bd, defs)) for n, (bd, defs) in b.items()]
    sc = scan(b["cmake"][0])
    number_sites(sc["callbacks"])
    _state["t1"] = (b, cfgs, sc)
    return _state["t1"]


def extract(ctx):
    b, cfgs, sc = t1()
    C.write_if_changed(GEN, render(cfgs, sc))
    for n, p in cfgs:
        if p["advertised"] and not compiled_in(p):
            ctx.note("configuration %s: coap_threadsafe_is_supported()=1 but locking is not compiled in "
                     "(COAP_THREAD_SAFE defined as '%s', #if taken: %d)" % (n, p["define"], p["if"]))
    for f in sc["lockfns"] + sc["heldfns"]:
        for pr in f["problems"]:
            ctx.note("lock balance: %s %s(): %s" % (f["file"], f["name"], pr))
    return ["Generated.buildCfgs (%d configurations)" % len(cfgs), "Generated.apiSites (%d COAP_API wrappers)" % len(sc["api"]),
            "Generated.callbackSites (%d invocation sites, %d of listed types)" % (len(sc["callbacks"]), sum(c["listed"] for c in sc["callbacks"])),
            "Generated.lockWindows (%d functions with lock events of %d scanned: %d COAP_API, %d internal; %d release windows / callback-release sites in functions entered held)"
            % (len(sc["lockfns"]), sc["functions_scanned"], sum(f["api"] for f in sc["lockfns"]), sum(not f["api"] for f in sc["lockfns"]),
               sum(f["windows"] for f in sc["lockfns"] if f["entryHeld"])),
            "Generated.heldFns (%d functions with code under the lock: %d entered held, %d taking it; %d call sites under the lock, %d of them to the public API)"
            % (len(sc["heldfns"]), sum(f["entry"] == "held" for f in sc["heldfns"]), sum(f["entry"] != "held" for f in sc["heldfns"]),
               sum(f["heldCalls"] for f in sc["heldfns"]), sum(f["apiCalls"] for f in sc["heldfns"]))]


# ----------------------------------------------------------------------------------------------- harness
# The thread smoke test (TSan flavor) runs against a libcoap built WITH assertions (RelWithDebInfo minus -DNDEBUG): the lock
# macros and API wrappers carry asserts (lock owner, non-NULL context, delay_recursive) that an NDEBUG build compiles away —
# a public API call that trips one does not "complete" in a debug build of the application.
ASSERTS_ON = ["-DCMAKE_C_FLAGS_RELWITHDEBINFO=-O2 -g"]


def locking_build(rc, flavor="asan"):
    """(bdir, defs) of a libcoap build that has locking compiled in, with lock variant rc"""
    b, cfgs, _ = t1()
    for n, p in cfgs:
        if compiled_in(p) and int(p["rc"]) == rc:
            if flavor == "asan":
                return b[n]
            if n == "cmake":
                return C.build_libcoap(flavor, cmake_args=ASSERTS_ON, tag="dbg"), []
            return C.build_libcoap(flavor, extra_defs=" ".join(at_defs()), cmake_args=OFF + ASSERTS_ON, tag="atdbg"), at_defs()
    # neither configuration of the tree gives this variant with locking on: force it
    d = ["-DCOAP_THREAD_SAFE=1"] + (["-DCOAP_THREAD_RECURSIVE_CHECK=1"] if rc else [])
    if flavor != "asan":
        return C.build_libcoap(flavor, extra_defs=" ".join(d), cmake_args=OFF + ASSERTS_ON, tag="on%ddbg" % rc), d
    return C.build_libcoap(flavor, extra_defs=" ".join(d), cmake_args=OFF, tag="on%d" % rc), d


def harness(ctx):
    b, cfgs, sc = t1()
    b0, d0 = locking_build(0)
    b1, d1 = locking_build(1)
    h0 = C.build_harness("lockseq", b0, extra=d0, wraps=["epoll_wait"])
    h1 = C.build_harness("lockseq", b1, extra=d1, wraps=["epoll_wait"])
    if (b0, b1) != (b["cmake"][0], b["autotools"][0]) and not _state.get("noted"):
        _state["noted"] = 1
        ctx.note("lock harness built against forced-on configurations: rc=0 %s, rc=1 %s" % (os.path.basename(b0), os.path.basename(b1)))
    sites = os.path.join(b["cmake"][0], "x_sites.txt")
    txt = "".join("api %s %s %d %d %d\n" % (a["file"], a["name"], a["locks"], a["callsLkd"], a["unlocks"]) for a in sc["api"])
    txt += "".join("cb %s %s %s %d %d\n" % (c["file"], c["func"], c["callee"], c["k"], c["wrapped"]) for c in sc["callbacks"])
    txt += "".join("win %s %s %d %d %d %d %d %d %d\n" % (f["file"], f["name"], f["entryHeld"], f["windows"], f["exitsBalanced"], f["loopsBalanced"],
                                                          f["failLeaves"], f["ordered"], f["quiet"]) for f in sc["lockfns"])
    txt += "".join("held %s %s %s %d %d\n" % (f["file"], f["name"], f["entry"], f["heldCalls"], f["apiCalls"]) for f in sc["heldfns"])
    C.write_if_changed(sites, txt)
    cmd = [h0, h1, sites]
    for n, (bd, defs) in b.items():
        cmd.append("%s=%s" % (n, os.path.join(bd, "x_threadcfg")))
    if not os.environ.get("C13_NO_TSAN"):
        tb, td = locking_build(0, "tsan")
        cmd.append("smoke=" + C.build_harness("thrsmoke", tb, flavor="tsan", extra=td))
    return cmd


# ----------------------------------------------------------------------------------------------- generators
KINDS = ["K", "R", "X", "Y", "W"]      # W = release window of an internal function (coap_lock_unlock … coap_lock_lock)


P_STARTUP = 0.06      # application code calls coap_startup() again (token S) — at top level or inside a callback


def gen_app(rng, depth, budget, deep):
    out = []
    if rng.random() < P_STARTUP:
        out.append("S")
    while budget[0] > 0 and rng.random() < (0.75 if depth == 0 else 0.6):
        budget[0] -= 2
        if rng.random() < P_STARTUP:
            out.append("S")
        out.append("L")
        out += gen_lib(rng, depth + 1, budget, deep)
        out.append("U")
        if rng.random() < P_STARTUP:
            out.append("S")
        if deep and depth > 0:
            break
    return out


def gen_lib(rng, depth, budget, deep):
    out = []
    while budget[0] > 0 and depth < 80 and rng.random() < (0.9 if deep else 0.55):
        budget[0] -= 2
        k = rng.choice(KINDS)
        out.append(k + "+")
        out += gen_app(rng, depth + 1, budget, deep)
        out.append(k + "-")
        if deep:
            break
    return out


def gen_prog(rng, maxtok, deep=False):
    for _ in range(20):
        p = gen_app(rng, 0, [maxtok], deep)
        if p:
            return p
    return ["L", "U"]


def generate(ctx, escalate=False):
    rng = ctx.rng
    b, cfgs, sc = t1()
    out = ["lkcfg"]
    out += ["lkapi %s %s" % (a["file"], a["name"]) for a in sc["api"]]
    out += ["lkcb %s %s %s %d" % (c["file"], c["func"], c["callee"], c["k"]) for c in sc["callbacks"]]
    out += ["lkwin %s %s" % (f["file"], f["name"]) for f in sc["lockfns"]]
    out += ["lkheld %s %s" % (f["file"], f["name"]) for f in sc["heldfns"]]
    out.append("lkctxfail 0")
    out += ["lkeintr 0", "lkeintr 1"]
    # the real I/O loop doing timer-driven work (4 scenarios) in both lock variants, 1..3 workers
    for k in range(16 if ctx.thorough() else 8):
        out.append("lkio %d %d %d %d" % (k & 1, (k >> 1) % 4, rng.randint(1, 3), rng.randrange(1, 1 << 15)))
    nseq = 300000 if ctx.thorough() else 20000
    nsch = 60000 if ctx.thorough() else 5000
    if escalate:
        nseq *= 3; nsch *= 3
    for i in range(nseq):
        deep = rng.random() < 0.15
        p = gen_prog(rng, rng.choice([4, 8, 12, 20, 40, 80]), deep)
        out.append("lkseq %d %s" % (i & 1, " ".join(p)))
    for i in range(nsch):
        n = rng.randint(2, 8)
        progs = [gen_prog(rng, rng.choice([2, 4, 6, 10, 16])) if rng.random() < 0.9 else [] for _ in range(n)]
        total = sum(len(p) for p in progs)
        ln = rng.randint(0, int(total * 1.6) + 2)
        sch, cur = [], rng.randrange(n)
        for _ in range(ln):
            if rng.random() < 0.45:
                cur = rng.randrange(n)
            sch.append(cur)
        out.append("lksched %d %s %s" % (i & 1, "/".join(",".join(p) for p in progs), ",".join(map(str, sch)) or "0"))
    if not os.environ.get("C13_NO_TSAN"):
        nsm = 24 if ctx.thorough() else 7
        for i in range(nsm):
            out.append("lksmoke %d %d %d" % (2 + i % 7, rng.randrange(1 << 16), 6000 if ctx.thorough() else 700))
    return out


# ----------------------------------------------------------------------------------------------- judging
def judge(ctx, c):
    i, m, s = c["impl"] or "", c["model"] or "", c["spec"]
    op = c["input"].split()[0]
    if i.startswith("crash") or i.endswith("hang"):
        return ("spec", "the real code does not complete: " + i[:200])
    if op == "lkcfg":
        for w in i.split():
            f = dict(kv.split("=", 1) for kv in w.split(":", 1)[1].split(",")) if ":" in w and "=" in w else {}
            if f.get("adv") == "1" and not (f.get("if") == "1" and f.get("linked") == "1"):
                return ("spec", "configuration %s advertises thread safety (coap_threadsafe_is_supported()=1) but the locking code "
                                "is not compiled in (COAP_THREAD_SAFE is '%s', #if COAP_THREAD_SAFE taken: %s, API takes the mutex: %s)"
                        % (w.split(":")[0], f.get("def"), f.get("if"), f.get("linked")))
        return None if i == m else ("tie", "configuration facts differ from Generated.buildCfgs: %s vs %s" % (i, m))
    if op == "lkapi":
        if i != "locks=1 lkd=1 unlocks=1":
            return ("spec", "COAP_API wrapper is not bracketed by coap_lock_lock/coap_lock_unlock on every path: " + i)
        return None if i == m else ("tie", "scan fact differs from Generated.apiSites: %s vs %s" % (i, m))
    if op == "lkcb":
        if i != "wrapped=1":
            return ("spec", "application callback invoked without a coap_lock_callback* macro (re-entering the API from it self-deadlocks): " + i)
        return None if i == m else ("tie", "scan fact differs from Generated.callbackSites: %s vs %s" % (i, m))
    if op == "lkwin":
        f = dict(kv.split("=", 1) for kv in i.split() if "=" in kv)
        badk = [k for k in ("exits", "loops", "fail", "order", "quiet") if f.get(k) != "1"]
        if badk:
            w = c["input"].split()
            return ("spec", "lock balance of %s() in %s is broken on some path (%s): %s" % (
                w[2] if len(w) > 2 else "?", w[1] if len(w) > 1 else "?", ",".join(badk), "; ".join(window_problems(w[1:3])) or i))
        return None if i == m else ("tie", "scan fact differs from Generated.lockWindows: %s vs %s" % (i, m))
    if op == "lkheld":
        f = dict(kv.split("=", 1) for kv in i.split() if "=" in kv)
        if f.get("api_calls") != "0":
            w = c["input"].split()
            return ("spec", "library code calls the lock-taking public API while it holds the global lock (in library code "
                            "in_callback is 0, so coap_lock_lock() waits for the mutex of its own thread: self-deadlock, after which "
                            "every API call of every thread blocks): %s" % ("; ".join(held_problems(w[1:3])) or i))
        return None if i == m else ("tie", "scan fact differs from Generated.heldFns: %s vs %s" % (i, m))
    if op == "lkio":
        if i != "ok":
            w = c["input"].split()
            scen = {"0": "keepalive ping of an idle UDP client session", "1": "keepalive of an idle TCP client session (ping/pong handlers)",
                    "2": "retransmission of an unanswered CON (event callback)", "3": "expiry of an idle server session (event callback)"}.get(w[2] if len(w) > 2 else "", "?")
            kind = "spec" if (i.startswith("stuck") or i.startswith("unserialised")) else "tie"
            return (kind, "the I/O thread did timer-driven work in coap_io_process() (%s) while %s worker thread(s) called the public "
                          "API (among it a repeated coap_startup()) and every callback re-entered it: every call must complete, "
                          "serialised; observed: %s%s" % (scen, w[3] if len(w) > 3 else "?", i, static_hint()))
        return None if i == m else ("tie", "differs from M: %s vs %s" % (i, m))
    if op == "lkeintr":
        if i != "ok":
            return ("spec" if i.startswith("unserialised") else "tie",
                    "a signal interrupted the I/O thread's wait inside coap_io_process() while another thread held the library "
                    "lock in an event callback: the I/O thread must re-take the lock before it goes on; observed: " + i + static_hint())
        return None if i == m else ("tie", "differs from M: %s vs %s" % (i, m))
    if op == "lkctxfail":
        if i != "ret=null held=0":
            return ("spec", "coap_new_context() was made to fail (listen address cannot be bound): it must return NULL with the "
                            "global lock released, observed: " + i + static_hint())
        return None if i == m else ("tie", "differs from M: %s vs %s" % (i, m))
    if op == "lksmoke":
        return None if i == "ok" else ("spec", "TSan multi-thread smoke run (2..8 application threads + I/O thread, callbacks re-entering the API): " + i[:300])
    if op == "lkseq":
        if i == "ill-nested" or m == "ill-nested":
            return None if i == m else ("tie", "nesting check differs: %s vs %s" % (i, m))
        iw, sw = i.split(), (s or "").split()
        if "blk" in iw:
            return ("spec", "token %d: the thread blocks on the lock it holds itself (self-deadlock): %s" % (iw.index("blk"), i[:200]))
        if len(iw) != len(sw):
            return ("spec", "the run did not produce one observation per token: " + i[:200])
        for k, (o, e) in enumerate(zip(iw, sw)):
            if o == "blk":
                return ("spec", "token %d: the thread blocks on the lock it holds itself (self-deadlock)" % k)
            f = o.split(",")
            if len(f) != 5:
                return ("spec", "malformed observation " + o)
            if f[4] != "0":
                return ("spec", "token %d: an assert() of the lock code fails" % k)
            if e == "1" and f[3] != "1":
                return ("spec", "token %d: the thread is in library code but the mutex is not held" % k)
            if e == "Z" and (f[3] != "0" or f[1] != "0" or f[2] != "0"):
                return ("spec", "token %d: the top-level API call has returned but the lock is not balanced "
                                "(in_callback=%s lock_count=%s held=%s)" % (k, f[1], f[2], f[3]))
        return None if i == m else ("tie", "lock state differs from M: %s vs %s" % (i[:200], m[:200]))
    if op == "lksched":
        if i == "ill-nested" or m == "ill-nested":
            return None if i == m else ("tie", "nesting check differs: %s vs %s" % (i, m))
        iw = i.split()
        fin = iw[-1][4:].split(",") if iw and iw[-1].startswith("fin:") else []
        ov = sched_overlap(c["input"], iw[:-1]) if fin else None
        if ov:
            return ("spec", ov)
        # (the value of global_lock.pid after the last unlock is not prescribed by the property)
        if len(fin) != 5 or fin[1:] != ["0", "0", "0", "0"]:
            return ("spec", "the threads did not all complete with the lock free and balanced: " + (iw[-1] if iw else i))
        iw = iw[:-1]
        for k, o in enumerate(iw):
            if o != "blk" and o.split(",")[-1] != "0":
                return ("spec", "turn %d: an assert() of the lock code fails" % k)
        return None if i == m else ("tie", "schedule run differs from M: %s vs %s" % (i[:200], m[:200]))
    return ("tie", "unknown op")


def sched_overlap(line, turns):
    """I-vs-property (critical_sections_exclusive), from the nesting and the implementation's own answers alone: replay
    which thread executed which token (a turn answered `blk` executed nothing) and look for a moment at which two
    threads are both under the lock — in library code or in a callback invoked with the lock kept."""
    w = line.split()
    if len(w) != 4:
        return None
    progs = [[t for t in p.split(",") if t] for p in w[2].split("/")]
    try:
        sched = [int(x) for x in w[3].split(",")]
    except ValueError:
        return None
    if len(sched) != len(turns):
        return None
    pos = [0] * len(progs)
    stack = [[] for _ in progs]
    for k, (t, o) in enumerate(zip(sched, turns)):
        if o == "blk" or t >= len(progs) or pos[t] >= len(progs[t]):
            continue
        tok = progs[t][pos[t]]
        pos[t] += 1
        if tok == "L":
            stack[t].append("api")
        elif tok == "U" or tok.endswith("-"):
            if stack[t]:
                stack[t].pop()
        elif tok.endswith("+"):
            stack[t].append(tok[0])
        under = [u for u, st in enumerate(stack) if st and st[-1] in ("api", "K", "R")]
        if len(under) > 1:
            return ("turn %d (thread %d executed %s): threads %s are inside the library / a lock-keeping callback at the same "
                    "time — library state is not accessed by one thread at a time" % (k, t, tok, " and ".join(map(str, under))))
    return None


def held_problems(key):
    """the scan's descriptions of the public-API calls function (file, name) makes under the lock"""
    try:
        sc = t1()[2]
    except Exception:
        return []
    for f in sc["heldfns"]:
        if [f["file"], f["name"]] == list(key):
            return f["problems"]
    return []


def window_problems(key):
    """the scan's path descriptions for function (file, name)"""
    try:
        sc = t1()[2]
    except Exception:
        return []
    for f in sc["lockfns"]:
        if [f["file"], f["name"]] == list(key):
            return f["problems"]
    return []


def static_hint():
    """what the static lock-balance scan says about the tree (names the function and the path)"""
    try:
        sc = t1()[2]
    except Exception:
        return ""
    pr = ["%s %s(): %s" % (f["file"], f["name"], p) for f in sc["lockfns"] + sc["heldfns"] for p in f["problems"]]
    return ("; static scan: " + "; ".join(pr[:6])) if pr else ""


def known(ctx, c):
    w = c["input"].split()
    if w[0] == "lksmoke" and (c["impl"] or "").startswith("tsan:"):
        if all(e == "data-race@global_lock" for e in c["impl"][5:].split(";")):
            return "lock-precheck-race"
    if w[0] == "lkcb" and c["impl"] == "wrapped=0":
        field = re.split(r"->|\.", w[3])[-1]
        if field in AUX_CALLBACKS:
            return "unwrapped-aux-callback"
    return None


def nontrivial(c):
    w = c["input"].split()
    if w[0] in ("lkcfg", "lkapi", "lkcb", "lkwin", "lkheld", "lkctxfail", "lkeintr", "lkio"):
        return True
    if w[0] in ("lkseq", "lksched"):
        return "L" in c["input"] and "+" in c["input"]
    return False


def classify(c):
    w = c["input"].split()
    if w[0] == "lkseq":
        n = len(w) - 2
        return "seq rc=%s len<=%d" % (w[1], 8 if n <= 8 else 20 if n <= 20 else 40 if n <= 40 else 1000)
    if w[0] == "lksched":
        return "sched rc=%s threads=%d" % (w[1], w[2].count("/") + 1)
    return w[0]


def search(ctx, tie_breaks, proof):
    """proof side or correspondence broken: longer sequences around the disagreeing ones + a denser sample"""
    rng = ctx.rng
    out = []
    for c in tie_breaks[:30]:
        w = c["input"].split()
        if w[0] == "lkseq":
            toks = w[2:]
            out.append("lkseq %s %s" % ("1" if w[1] == "0" else "0", " ".join(toks)))
    for i in range(3000):
        out.append("lkseq %d %s" % (i & 1, " ".join(gen_prog(rng, rng.choice([4, 8, 12])))))
    return out


def shrink(ctx, case):
    """drop matched token pairs / whole API calls while the implementation still contradicts the property"""
    w = case["input"].split()
    if w[0] != "lkseq":
        return case
    from vlib.runner import diff_side
    import props.C13 as me
    toks = w[2:]
    best = case
    for _ in range(8):
        cands = []
        for a in range(len(toks)):
            # remove the balanced block starting at a
            if toks[a] == "L" or toks[a].endswith("+"):
                d = 0
                for b_ in range(a, len(toks)):
                    t = toks[b_]
                    d += 1 if (t == "L" or t.endswith("+")) else -1
                    if d == 0:
                        cands.append(toks[:a] + toks[b_ + 1:])          # drop the block
                        cands.append(toks[:a] + toks[a + 1:b_] + toks[b_ + 1:])  # unwrap it
                        break
        lines = ["lkseq %s %s" % (w[1], " ".join(t)) for t in cands if t]
        nxt = None
        for cc in diff_side(ctx, me, lines[:300]):
            v = judge(ctx, cc)
            if v and v[0] == "spec":
                cc["why"] = v[1]
                if nxt is None or len(cc["input"]) < len(nxt["input"]):
                    nxt = cc
        if nxt is None or len(nxt["input"]) >= len(best["input"]):
            break
        best = nxt
        toks = best["input"].split()[2:]
    return best


# ---- T1X: the numerals of this property's models are tied to the current tree.  extract/consts2*.c + a source scan
# rewrite lean/CoapVerif/Generated/Consts2.lean on every check; Props/C13Consts.lean proves `<model numeral> =
# Generated.C2.<name>` (design/T1.md).  A changed macro / struct size / literal breaks one of these named obligations.
LEAN_MODULES = list(LEAN_MODULES) + ["CoapVerif.Props.C13Consts"]
REQUIRED_THEOREMS = list(REQUIRED_THEOREMS) + [
    "maxDepth_matches_code",
]
TRUSTED_BASE = list(TRUSTED_BASE) + ["T1 extractors extract/consts2.c, consts2_net.c, consts2_opt.c and the source scan vlib/tables.py scan_consts2 (Generated/Consts2.lean)"]
_t1x_prev_extract = globals().get("extract")


def extract(ctx):
    from vlib import tables
    return (_t1x_prev_extract(ctx) if _t1x_prev_extract else []) + tables.extract_consts2()
