"""C16 — URI ↔ options without loss, confusion or overread (DESIGN.md §4 C16, design/C16.md)."""
import itertools, os
from vlib import common as C
from vlib.uritab import render_uritab

MANIFEST = {
    "text": "Lean theorems about the transcription M of src/coap_uri.c, each for all inputs: coap_split_uri / coap_split_proxy_uri "
            "equal the RFC 3986 §3 / RFC 7252 §6 structure S on every byte string — accept/reject, scheme, host incl. [IPv6], "
            "port <= 65535 or the scheme's default, path, query, well-formed escapes (split_uri_eq_spec, "
            "split_uri_rejects_malformed) and S, hence libcoap, accepts every URI text composed from a table scheme, a host or "
            "bracketed IPv6 literal, an optional port <= 65535 and a well-formed path/query tail and returns those parts "
            "(uri_recognised); coap_uri_into_optlist emits exactly RFC 7252 §6.4 steps 5-9's options — Uri-Host "
            "unless the host is the destination literal, Uri-Port unless default, Uri-Path / Uri-Query per segment "
            "(uri_into_optlist_eq_spec, uri_to_options_eq_spec, uri_options_defined); coap_path_into_optlist / "
            "coap_query_into_optlist equal the RFC splitting on every string with well-formed escapes (split_path_eq_spec, "
            "split_query_eq_spec, decode_once, dot_segments_never_emitted) and so do the buffer writers coap_split_path / "
            "coap_split_query for every buffer of at least length + 2*segments + 1 bytes (split_path_buf_eq_spec, "
            "split_query_buf_eq_spec, split_buf_eq_spec_3n, split_buf_documented_bound), which for no buffer size write past "
            "it and only ever omit segments (split_buf_never_overflows, split_buf_omits_only, split_buf_truncation); coap_get_uri_path / coap_get_query compute RFC 7252 §6.5's "
            "strings with escape tables regenerated from the code and proved equal to the RFC's character classes "
            "(get_uri_path_eq_spec, get_query_eq_spec, escape_tables_match_rfc); those strings are injective modulo the single "
            "empty segment (uri_path_injective, query_injective) and feed back to the same options, also end to end from a URI "
            "(path_feeds_back, query_feeds_back, path_roundtrip, query_roundtrip, uri_options_roundtrip); no transcribed "
            "function reads outside the length-delimited input for any input and any output buffer size (no_overread, uri_no_overread). M is "
            "tied to the compiled code by differential runs (I vs M vs S) under ASan/UBSan with exact-size input and output "
            "buffers.",
    "note": "Trusted: Lean kernel (+ propext, Classical.choice, Quot.sound), the T1 extractor and T2 harness/generators, the hand "
            "transcription M (checked against the compiled code on the cases run only). Seven defects found on the way are fixed "
            "in libcoap (KNOWN_FINDINGS.txt); M is transcribed from the fixed code. Outside S (SPEC DECISIONS): malformed escapes "
            "handed directly to the component splitters (D16a) or inside a host (D4), output buffers below the minimum (D16b: "
            "proved there: no overflow, segments are only omitted, the exact fold), authorities naming a Unix socket (D16f); "
            "Uri-Host is specified "
            "decoded-then-lower-cased (D16g). The header's documented buffer bound (length + 2 per segment) is one byte short "
            "for a segment of >= 269 bytes (decided witness in Props/C16.lean; not a CoAP-legal option length).",
    "design_ref": "DESIGN.md §4 C16, design/C16.md",
}
LEAN_MODULES = ["CoapVerif.Props.C16"]
NAMESPACE = "Coap.C16"
REQUIRED_THEOREMS = ["escape_tables_match_rfc", "get_uri_path_eq_spec", "get_query_eq_spec", "uri_path_injective",
                     "query_injective", "path_feeds_back", "query_feeds_back", "split_path_eq_spec",
                     "split_query_eq_spec", "decode_once", "dot_segments_never_emitted", "no_overread",
                     "split_uri_eq_spec", "split_uri_rejects_malformed", "split_uri_eq_spec_instances", "uri_recognised",
                     "split_path_buf_eq_spec", "split_query_buf_eq_spec", "split_buf_eq_spec_3n",
                     "split_buf_documented_bound", "split_buf_never_overflows", "split_buf_truncation", "split_buf_omits_only",
                     "uri_into_optlist_eq_spec", "uri_to_options_eq_spec", "uri_options_defined",
                     "path_roundtrip", "query_roundtrip", "uri_options_roundtrip", "uri_no_overread"]
RULE = ("byte strings over an alphabet biased to / % & ? # . [ ] : and hex digits (plus blind bytes) as path / query / URI input, each "
        "in an exact-size heap block without NUL; well-formed and malformed escapes at every position incl. the last two bytes; "
        "literal and percent-encoded dot segments; empty segments; all output buffer sizes 0..need+2 for a sample; segment lists "
        "over the full byte alphabet for the options→string direction and its round trip; URIs assembled from scheme / host / "
        "IPv6 literal / port / path / query parts and mutated; thorough adds every string of length ≤ 5 over a 12-symbol alphabet. "
        "non-trivial = distinct input on which the specification is defined (accepted URI, well-formed component, any segment list)")
TRUSTED_BASE = ["Lean 4.33 kernel; axioms allowed: propext, Classical.choice, Quot.sound (audited per theorem each run)",
                "T1 extractor extract/uritab.c (evaluation of is_unescaped_in_path/query, hexchar_to_dec, isxdigit over 0..255, "
                "scheme table) and its renderer vlib/uritab.py",
                "harness/uri.c + generator + string comparison in props/C16.py",
                "M (CoapVerif/Model/Uri.lean) is a hand transcription of src/coap_uri.c; checked against the compiled code only on "
                "the cases run; memory safety of the compiled C is observed by ASan/UBSan on the cases run, proved only for M"]
ASSUMPTIONS = ["segment (option value) lengths < 65536 (coap_get_uri_path/_query hold them in uint16_t; the parser admits ≤ 255)",
               "requests without Proxy-Uri for coap_get_uri_path",
               "allocation never fails (C18) and decoded segments < 65805 bytes (C01)",
               "compiled Lean definitions agree with the kernel's reading of them"]
SPEC_DECISIONS = ["D4 S checks URI structure incl. well-formed escapes in path/query; host characters are not validated",
                  "D5 path_feeds_back excludes the segment values '.' and '..'",
                  "D16a component splitters are specified on well-formed escapes only; malformed ones: tie + memory safety",
                  "D16b buffer writers are specified for buflen >= length + 3*segments (proved: length + 2*segments + 1 is enough); "
                  "below: tie + memory safety (proved for M: never writes past the buffer)",
                  "D16c a final '.'/'..' leaves no trailing empty segment; '..' with nothing before it is ignored",
                  "D16d an empty component splits into one empty segment, which counts as no segment",
                  "D16e 'coap://h?q' is well formed; a fragment is cut off by the component splitters, not by coap_split_uri",
                  "D16f hosts naming a Unix domain socket (%2F…, libcoap extension) are outside S (tie only)",
                  "D16g Uri-Host = host percent-decoded then lower-cased (RFC 7252 §6.4 step 5 lower-cases first; differs only for "
                  "percent-encoded upper-case letters, same host either way); omitted iff the host text without zone id equals the "
                  "destination address text; Uri-Port omitted iff it is the scheme's default"]


def extract(ctx):
    from vlib.tables import run_extractor
    data = run_extractor("uritab", C.build_libcoap())
    C.write_if_changed(os.path.join(C.LEAN, "CoapVerif", "Generated", "UriTab.lean"), render_uritab(data))
    return ["Generated.Uri.unescPathTab/unescQueryTab/hexDecTab/xdigitTab (4 x 256 entries)",
            "Generated.Uri.schemes (%d rows)" % len(data["schemes"])]


def harness(ctx):
    return C.build_harness("uri", C.build_libcoap())


def hx(b):
    return b.hex() if b else "-"


def lst(segs):
    return ",".join(s.hex() if s else "e" for s in segs) if segs else "-"


# ---------------------------------------------------------------------------
# generators
# ---------------------------------------------------------------------------
SPECIAL = b"/%&?#.[]:"
HEXD = b"0123456789abcdefABCDEF"
PIECES = [b".", b"..", b"%2E", b"%2e", b"%2E%2E", b".%2e", b"%2e.", b"%2F", b"%25", b"%26", b"%3F", b"%23", b"%", b"%%", b"%2",
          b"%g0", b"%0g", b"%%2E", b"%%2e", b"%2%", b"", b"a", b"b", b"ab", b"%41", b"%00", b"%ff", b"..."]


def rchar(rng):
    c = rng.random()
    if c < 0.35:
        return bytes([rng.choice(SPECIAL)])
    if c < 0.6:
        return bytes([rng.choice(HEXD)])
    if c < 0.8:
        return bytes([rng.choice(b"abxyz012E~-_=+@!$'()*,;")])
    return bytes([rng.randrange(256)])


def rstring(rng, n):
    return b"".join(rchar(rng) for _ in range(n))


GOOD = [p for p in PIECES if p.count(b"%") * 3 == sum(1 for i in range(len(p)) if p[i:i + 1] == b"%" and len(p) >= i + 3
                                                        and all(c in HEXD for c in p[i + 1:i + 3])) * 3 and b"%%" not in p and b"%2%" not in p]


def rclean(rng, sep):
    """a component whose escapes are all well formed"""
    k = rng.choice([0, 1, 1, 2, 2, 3, 4])
    segs = []
    for _ in range(k):
        if rng.random() < 0.6:
            segs.append(b"".join(rng.choice(GOOD) for _ in range(rng.choice([1, 1, 2, 3]))))
        else:
            segs.append(bytes(rng.choice(b"abxyz012E~-_=+@!$'()*,;:.") for _ in range(rng.choice([0, 1, 2, 5]))))
    return sep.join(segs)


def rcomponent(rng, sep):
    """a path / query made of pieces, so that dot segments, escapes and empties occur as whole segments"""
    k = rng.choice([0, 1, 1, 2, 2, 3, 4, 6])
    segs = []
    for _ in range(k):
        c = rng.random()
        if c < 0.55:
            segs.append(b"".join(rng.choice(PIECES) for _ in range(rng.choice([1, 1, 1, 2, 3]))))
        elif c < 0.9:
            segs.append(rstring(rng, rng.choice([0, 1, 2, 3, 5, 8])))
        else:
            segs.append(bytes([rng.choice(b"abc")]) * rng.choice([12, 13, 14, 268, 269, 270, 300]))
    b = sep.join(segs)
    c = rng.random()
    if c < 0.15 and b:          # damage: cut in the last three bytes / insert a '%' near the end
        b = b[:len(b) - rng.choice([1, 2])]
    elif c < 0.3:
        i = max(0, len(b) - rng.choice([0, 1, 2, 3]))
        b = b[:i] + b"%" + b[i:]
    elif c < 0.38:
        b += rng.choice([b"?x", b"#f", b"#", b"?"]) + rstring(rng, rng.choice([0, 2]))
    return b


def rseglist(rng):
    k = rng.choice([0, 1, 1, 2, 2, 3, 4])
    segs = []
    for _ in range(k):
        c = rng.random()
        if c < 0.2:
            segs.append(b"")
        elif c < 0.35:
            segs.append(rng.choice([b".", b"..", b"%2E", b"a&b", b"a/b", b"%", b"%41", b"?", b"#", b"&", b"/", b"a", b"..."]))
        elif c < 0.85:
            segs.append(rstring(rng, rng.choice([1, 1, 2, 3, 5])))
        else:
            segs.append(bytes(rng.randrange(256) for _ in range(rng.choice([1, 4, 13, 40]))))
    return segs


SCHEMES = [b"coap", b"coaps", b"coap+tcp", b"coaps+tcp", b"http", b"https", b"coap+ws", b"coaps+ws", b"coapx", b"COAP", b"", b"coa"]
HOSTS = [b"h", b"example.com", b"192.0.2.1", b"192.0.2.2", b"[::1]", b"[2001:db8::1]", b"[fe80::1%25eth0]", b"[]", b"[::1", b"", b"EXAMPLE.Com",
         b"a%41b", b"?", b"[?]", b"h%zz", b"%2Fsock", b"%2fs"]
PORTS = [b"", b"", b"", b":", b":0", b":1", b":80", b":443", b":5683", b":5684", b":65535", b":65536", b":99999", b":0005683", b":12a", b":-1",
         b":4294967297",
         # digits following a value that is already at / next to the 16-bit limit (the accumulation loop's bound)
         b":655350", b":655351", b":655359", b":6553500", b":65534", b":655340", b":6553", b":65530", b":065535", b":0655350", b":655360",
         b":65535a", b":100000", b":429496", b":18446744073709551617"]


def ruri(rng):
    c = rng.random()
    if c < 0.12:
        u = b"/" + rcomponent(rng, b"/")
        if rng.random() < 0.5:
            u += b"?" + rcomponent(rng, b"&")
        return u
    u = rng.choice(SCHEMES[:4] + SCHEMES[6:8] if rng.random() < 0.8 else SCHEMES) + rng.choice([b"://"] * 12 + [b":/", b"//", b":"])
    u += rng.choice(HOSTS[:6] if rng.random() < 0.7 else HOSTS) + rng.choice(PORTS[:12] if rng.random() < 0.8 else PORTS)
    comp = rclean if rng.random() < 0.7 else rcomponent
    c = rng.random()
    if c < 0.75:
        u += b"/" + comp(rng, b"/")
    if rng.random() < 0.5:
        u += b"?" + comp(rng, b"&")
    if rng.random() < 0.12:        # blind mutation
        i = rng.randrange(len(u) + 1)
        u = u[:i] + rchar(rng) + u[i + rng.choice([0, 1]):]
    if rng.random() < 0.05:
        u = u[:rng.randrange(len(u) + 1)]
    return u


def need(b):
    return len(b) + 3 * (sum(1 for c in b if c in b"/&") + 1) + 1


def generate(ctx, escalate=False):
    rng = ctx.rng
    n = 500000 if ctx.thorough() else 50000
    if escalate:
        n *= 3
    out = []
    for i in range(n):
        c = rng.random()
        if c < 0.22:
            b = rcomponent(rng, b"/") if rng.random() < 0.8 else rstring(rng, rng.randrange(9))
            out.append("splitpath " + hx(b))
            out.append("pathopts " + hx(b))
            if rng.random() < 0.1:      # all output buffer sizes
                for k in range(0, min(need(b), 40) + 2):
                    out.append("splitpath %s %d" % (hx(b), k))
        elif c < 0.40:
            b = rcomponent(rng, b"&") if rng.random() < 0.8 else rstring(rng, rng.randrange(9))
            out.append("splitquery " + hx(b))
            out.append("queryopts " + hx(b))
            if rng.random() < 0.1:
                for k in range(0, min(need(b), 40) + 2):
                    out.append("splitquery %s %d" % (hx(b), k))
        elif c < 0.62:
            segs = rseglist(rng)
            out.append(rng.choice(["getpath", "rtpath"]) + " " + lst(segs))
            out.append(rng.choice(["getquery", "rtquery"]) + " " + lst(segs))
        else:
            u = ruri(rng)
            out.append("splituri " + hx(u))
            out.append("uri2opts " + hx(u))
            if rng.random() < 0.3:
                out.append("splitproxy " + hx(u))
    if ctx.thorough():
        out += exhaustive(5)
    else:
        out += exhaustive(4)
    return out


ALPHABET = [b"/", b"%", b"&", b"?", b"#", b".", b"2", b"E", b"e", b"a", b"g", b":"]


def exhaustive(maxlen):
    """every string of length ≤ maxlen over the 12-symbol alphabet, through all four component splitters"""
    out = []
    for k in range(maxlen + 1):
        for t in itertools.product(ALPHABET, repeat=k):
            h = hx(b"".join(t))
            out.append("splitpath " + h)
            out.append("pathopts " + h)
            out.append("splitquery " + h)
            if k <= 4:
                out.append("queryopts " + h)
    return out


# ---------------------------------------------------------------------------
# oracle
# ---------------------------------------------------------------------------
def parse_list(w):
    if w == "-":
        return []
    return [b"" if x == "e" else bytes.fromhex(x) for x in w.split(",")]


def norm(l):
    return [] if l == [b""] else l


def opt_size(seg):
    return (1 if len(seg) < 13 else 2 if len(seg) < 269 else 3) + len(seg)


def fields(s):
    return dict(f.split("=", 1) for f in s.split()[0:] if "=" in f)


def unix_host(u):
    """coap_host_is_unix_domain(): the host starts with %2F or (inside brackets) with '/'  (D16f)"""
    i = u.find(b"://")
    if i < 0:
        return False
    h = u[i + 3:]
    if h.startswith(b"["):
        h = h[1:]
    return h[:3].lower() == b"%2f" or h[:1] == b"/"


def judge(ctx, c):
    i, m, s = c["impl"], c["model"], c["spec"]
    w = c["input"].split()
    op = w[0]
    if i is None or i.startswith("crash") or i == "bad-op" or "!" in i:
        return ("spec", "memory error / abort / unusable output in the implementation: %s" % short(i))
    if m == "oob":
        return ("tie", "model reads or writes out of bounds (implementation: %s)" % short(i))
    v = spec_verdict(op, w, i, s)
    if v:
        return ("spec", v)
    if i != m:
        return ("tie", "implementation %s but model M says %s" % (short(i), short(m)))
    return None


def spec_verdict(op, w, i, s):
    if op in ("splitpath", "splitquery"):
        f = fields(i)
        try:
            segs = parse_list(f["segs"]); n = int(f["n"]); used = int(f["used"])
        except Exception:
            return "unparsable result %s" % short(i)
        b = bytes.fromhex(w[1]) if w[1] != "-" else b""
        cap = int(w[2]) if len(w) > 2 else need(b)
        if n != len(segs) or used != sum(opt_size(x) for x in segs) or used > cap:
            return "inconsistent count / used bytes: %s (buffer %d)" % (short(i), cap)
        if s == "none":
            return None                                   # D16a
        if cap < need(b) - 1:
            return None                                   # D16b
        if norm(segs) != norm(parse_list(s)):
            return "segments %s but RFC 3986/7252 splitting gives %s" % (f["segs"], s)
        return None
    if op in ("pathopts", "queryopts"):
        if s == "none":
            return None                                   # D16a
        if not i.startswith("ok "):
            return "well-formed component refused: %s" % i
        if norm(parse_list(i[3:])) != norm(parse_list(s)):
            return "options %s but RFC 3986/7252 splitting gives %s" % (i[3:], s)
        return None
    if op in ("getpath", "getquery"):
        if i != s:
            return "reconstructed string %s but RFC 7252 §6.5 composition gives %s" % (short(i), short(s))
        return None
    if op in ("rtpath", "rtquery"):
        if i == s:
            return None
        fi, fs = fields(i), fields(s)
        if fi.get("str") != fs.get("str"):
            return "reconstructed string %s but RFC 7252 §6.5 composition gives %s" % (short(i), short(s))
        for k in ("a", "b"):
            if "!" in fi.get(k, "!") or norm(parse_list(fi[k])) != norm(parse_list(fs[k])):
                return "splitting the reconstructed string gives %s=%s, expected %s" % (k, fi.get(k), fs.get(k))
        return None
    if op in ("splituri", "splitproxy", "uri2opts"):
        u = bytes.fromhex(w[1]) if w[1] != "-" else b""
        if unix_host(u):
            return None                                   # D16f
        if op == "uri2opts":
            i, s = canon_opts(i), canon_opts(s)
        if i != s:
            return "implementation %s but RFC 3986 / RFC 7252 §6.4 gives %s" % (short(i), short(s))
        return None
    return "unknown op"


def canon_opts(r):
    """`ok num:hex,…` → Uri-Host (3) dropped (D4), a single empty Uri-Path / Uri-Query dropped (D16d)"""
    if not r or not r.startswith("ok "):
        return r
    opts = [x.split(":") for x in r[3:].split(",") if x != "-"]
    out = []
    for num in ("7", "11", "15"):
        vals = [v for n, v in opts if n == num]
        if num != "7" and vals == ["-"]:
            vals = []
        out += ["%s:%s" % (num, v) for v in vals]
    rest = [x for x in opts if x[0] not in ("3", "7", "11", "15")]
    return "ok " + ",".join(out + ["%s:%s" % tuple(x) for x in rest])


def short(s):
    return s if s is None or len(s) < 160 else s[:150] + "…"


def nontrivial(c):
    s = c["spec"] or ""
    return s != "none" and s != "rej"


def classify(c):
    op = c["input"].split()[0]
    s = c["spec"] or ""
    return op + ":" + ("undefined" if s in ("none",) else "reject" if s == "rej" else "defined")


def search(ctx, tie_breaks, proof):
    """neighbourhood of the disagreeing inputs (byte deletions / substitutions), plus the exhaustive small strings"""
    rng = ctx.rng
    out = []
    for c in tie_breaks[:40]:
        w = c["input"].split()
        if w[0] in ("getpath", "getquery", "rtpath", "rtquery"):
            continue
        b = bytes.fromhex(w[1]) if w[1] != "-" else b""
        for _ in range(150):
            x = bytearray(b)
            for _ in range(rng.choice([1, 1, 2])):
                j = rng.randrange(len(x) + 1)
                r = rng.random()
                if r < 0.4 and x:
                    del x[min(j, len(x) - 1)]
                elif r < 0.7:
                    x[j:j] = rchar(rng)
                elif x:
                    x[min(j, len(x) - 1)] = rchar(rng)[0]
            out.append(" ".join([w[0], hx(bytes(x))] + w[2:]))
    out += exhaustive(4)
    return out


def shrink(ctx, case):
    """greedy deletion of bytes (or of whole segments for the list ops) while I still contradicts S"""
    from vlib.runner import diff_side
    import props.C16 as me
    w = case["input"].split()
    best = case
    for _ in range(8):
        if w[0] in ("getpath", "getquery", "rtpath", "rtquery"):
            segs = parse_list(w[1])
            cands = [segs[:k] + segs[k + 1:] for k in range(len(segs))]
            cands += [segs[:k] + [segs[k][:j] + segs[k][j + 1:]] + segs[k + 1:] for k in range(len(segs)) for j in range(len(segs[k]))]
            lines = [w[0] + " " + lst(x) for x in cands[:300]]
        else:
            b = bytes.fromhex(w[1]) if w[1] != "-" else b""
            lines = [" ".join([w[0], hx(b[:k] + b[k + 1:])] + w[2:]) for k in range(len(b))][:300]
        hit = None
        for cc in diff_side(ctx, me, lines):
            v = judge(ctx, cc)
            if v and v[0] == "spec":
                cc["why"] = v[1]; hit = cc
                break
        if not hit:
            break
        best = hit
        w = hit["input"].split()
    return best


def known(ctx, c):
    return None


# ---- T1Y: the numerals of this property's models are tied to the current tree.  extract/consts2*.c + a source scan
# rewrite lean/CoapVerif/Generated/Consts2.lean on every check; Props/C16Consts.lean proves `<model numeral / model
# function> = Generated.C2.<name>` (design/T1.md).  A changed macro / enum value / case label / literal breaks one of
# these named obligations.
LEAN_MODULES = list(LEAN_MODULES) + ["CoapVerif.Props.C16Consts"]
REQUIRED_THEOREMS = list(REQUIRED_THEOREMS) + [
    "schemeTable_matches_code",
    "defaultPortSwitch_matches_code",
    "portLoop_matches_code",
    "optVal_matches_code",
    "uri_numerals_match_code",
]
TRUSTED_BASE = list(TRUSTED_BASE) + ["T1 extractors extract/consts2.c, consts2_net.c, consts2_opt.c, consts2_res.c and the source scan vlib/tables.py scan_consts2 / scan_oscore_protect (Generated/Consts2.lean)"]
_t1x_prev_extract = globals().get("extract")


def extract(ctx):
    from vlib import tables
    return (_t1x_prev_extract(ctx) if _t1x_prev_extract else []) + tables.extract_consts2()
