"""C01 — wire codec round-trip for every API-built message on every transport (DESIGN.md §4 C01)."""
import os
from vlib import common as C, coapgen as G

# clean (exit 0, no KNOWN-FINDING) at seeds 1..5 on the tree with the Hop-Limit fix (branch ws-P04).
MANIFEST = {
    "text": "Proved in Lean for all messages and all three framings: decode(encode m) = m for every well-formed message (udp, tcp with four length forms, ws), the 13/14 header scheme is a bijection, any insertion order yields ascending options with insertion order kept among equals (about the specification S); M's serialised bytes = Spec.encode and the decoder's view of a built PDU is the abstract message; build_view: every script of API calls (add_token / add_option in ANY order, i.e. including the coap_insert_option path with its six next-option header rewrite cases / insert / update / remove / update_token / add_data, any capacity, refusals at any step) run by the transcription M of libcoap's builders never leaves the buffer and ends on the PDU representing the abstract message reached by the specification's steps with M's return codes; refused_is_noop: every refused call of every kind leaves the PDU (bytes, max_opt, payload offset, hence the view) exactly as it was. M is tied to the C code by differential runs: I vs M vs S on generated API call scripts, per-call buffer digests (a refused call changing the buffer is a violation on its own), bytes compared with Spec.encode. WebSocket write side (coap_ws_write / coap_ws_close): for every payload below 2^63 bytes, either role and any masking key the bytes built are exactly one RFC 6455 frame (FIN, RSV 0, binary opcode, MASK iff client, minimal length form, payload XOR key cyclically; Close frame: opcode 8 + status code); the written bytes cut into any chunks and read by C05's reader of the opposite role (S_ws and the model of coap_ws_read) give back the CoAP messages in order; and under ANY pattern of partial lower-layer writes the caller's loop puts exactly these frames on the wire (never a frame started inside another). Tied to the code by running the real coap_ws_write / coap_ws_close with a scripted PRNG and a scripted partial-write lower layer against M and an independent RFC 6455 encoder in the judge.",
    "note": 'Trusted: Lean kernel (+ propext, Classical.choice, Quot.sound), T1 extractor, harness/generators, the hand transcription M (checked against the compiled code on the cases run only; no model-branch coverage is reported). Five libcoap defects fixed on the way (token length cast, over-long option value, refused add_token leaving the token length, refused Proxy-Uri/Proxy-Scheme leaving its implicit Hop-Limit, coap_ws_write dropping the rest of a partly written frame); none open. The read-back theorems are for payloads up to the 1472-byte buffer of the reader (C05 D19) and CoAP messages of at least 2 bytes (D21). The theorems hold for PDUs representing an abstract message (everything reachable from coap_pdu_init or a successful parse through the API), option numbers ≤ 65535.',
    "design_ref": "design/C01.md, DESIGN.md §4 C01",
}

LEAN_MODULES = ["CoapVerif.Props.C01"]
NAMESPACE = "Coap.C01"
REQUIRED_THEOREMS = ["ext_roundtrip", "opt_header_unique", "decode_encode", "encode_wellformed", "parse_encode",
                     "opts_canonical", "build_sorted", "build_stable", "constants_match",
                     "refused_repetitions_are_illegal",
                     # M side
                     "M_encode_eq_S", "view_of_built", "build_view", "build_view_fresh", "build_view_partial",
                     "accepted_step_is_spec", "refused_when", "refused_is_noop", "refused_calls_are_skippable",
                     "refused_proxy_leaves_nothing",
                     # WebSocket write side (coap_ws_write / coap_ws_close)
                     "ws_frame_wellformed", "ws_close_frame_wellformed", "ws_write_whole", "ws_close_then_silent", "ws_frames_wellformed", "ws_spec_reads_written",
                     "ws_write_read_roundtrip", "ws_payload_roundtrip", "ws_write_sequence_roundtrip",
                     "ws_partial_writes_one_frame", "ws_partial_writes_sequence", "ws_send_receive"]
NOT_PROVED = []
RULE = ("API call scripts (coap_pdu_init; add_token / add_option / insert_option / update_option / remove_option / "
        "update_token / add_data in any order) for udp/tcp/ws: token length classes 0, 1-8, 9-12, 13, 14-268, 269, "
        "270-65804, 65805; option multisets over 0..65535 with deltas and value lengths on both sides of 12/13, "
        "268/269, 65804/65805; shuffled insertion order; repetitions of non-repeatable options; Proxy-Uri/-Scheme in "
        "requests; payloads sized to reach all four TCP length forms; maximum sizes that make calls fail; "
        "non-trivial = distinct script with at least one accepted call; "
        "wsw lines (10 %): client / server role, 1-4 coap_ws_write calls per line (payload lengths 0..6, 124..128, 255/256, "
        "1471..1473, 65534..65537, 70000, random; masking keys 00000000, ffffffff, 80000000, 000000ff, random), "
        "lower-layer scripts taking everything / nothing / a part of the header / the header exactly / a part of the "
        "payload at every key offset / failing, coap_ws_close with status codes 0, 1000, 1002, 1009, 65535, random")
TRUSTED_BASE = ["Lean 4.33 kernel; axioms allowed: propext, Classical.choice, Quot.sound (audited per theorem each run)",
                "T1 extractor extract/repeatable.c and its renderer",
                "harness/codec.c (ops build/edit/wsw) + generators + string comparison; the judge's own RFC 6455 encoder",
                "M (CoapVerif/Model/Build.lean) is a hand transcription of the PDU building/editing functions; checked "
                "against the compiled code only on the cases run",
                "M_ws-write (CoapVerif/Model/WsWriter.lean) is a hand transcription of coap_ws_write / coap_ws_mask_data / "
                "the Close frame of coap_ws_close; the reader side used by the round-trip theorems is C05's "
                "(Model/WsReader.lean, Spec/StreamWs.lean)"]
ASSUMPTIONS = ["capacity is modelled by max_size only: after a successful coap_pdu_check_resize the writes have room; "
               "failure of realloc itself is C18's subject",
               "pdu->session == NULL (coap_update_token does not re-encode the header itself)",
               "compiled Lean definitions agree with the kernel's reading of them",
               "coap_ws_write: session->ws and the frame buffer can be allocated; coap_prng_lkd returns 4 bytes; the lower "
               "layer's l_write returns < 0 or a count of at most what it was offered; size_t has 64 bits"]
SPEC_DECISIONS = ["D2 Empty message with token/options/payload is outside the property (still run, I vs M only)",
                  "D3 type/mid are CON/0 on reliable transports",
                  "D13 Hop-Limit=16 may accompany a Proxy-Uri/Proxy-Scheme added to a request without Hop-Limit",
                  "D14 any call may be refused; a refused call leaves the abstract message unchanged",
                  "D15 WebSocket sender sets Len = 0",
                  "D20 WebSocket frames: the client masks, the server does not (RFC 6455 5.1); a CoAP message is one "
                  "unfragmented binary frame (RFC 8323 4.1)",
                  "D21 a zero-length coap_ws_write whose frame header the lower layer does not take at once is outside "
                  "the property (a CoAP message has at least 2 bytes; the return value 0 cannot tell 'nothing taken' "
                  "from 'done'); such lines are still run, I vs M only"]


def extract(ctx):
    bdir = C.build_libcoap()
    from vlib.tables import run_extractor, render_repeatable
    data = run_extractor("repeatable", bdir)
    C.write_if_changed(os.path.join(C.LEAN, "CoapVerif", "Generated", "Repeatable.lean"), render_repeatable(data))
    return ["Generated.nonRepeatable (%d numbers of 65536 evaluated), 11 constants" % len(data["non_repeatable"])]


def harness(ctx):
    return C.build_harness("codec", C.build_libcoap())


# ---------------------------------------------------------------- generators
NONREP = [3, 5, 6, 7, 9, 12, 14, 16, 17, 23, 27, 28, 35, 39, 60, 252, 258]
FREE = [2000, 2001, 2269, 2282, 40000, 65000, 65535]      # numbers without a length row: any length is legal


def val(rng, n):
    """a value of n bytes in line syntax"""
    if n == 0:
        return "-"
    if n <= 24 and rng.random() < 0.7:
        return G.rbytes(rng, n).hex()
    return "*%d*%d" % (n, rng.randrange(256))


def tok_len(rng, big):
    c = rng.random()
    if c < 0.15: return 0
    if c < 0.45: return rng.randint(1, 8)
    if c < 0.55: return rng.randint(9, 12)
    if c < 0.65: return 13
    if c < 0.80: return rng.choice([14, 20, 100, 267, 268])
    if c < 0.88: return 269
    if big: return rng.choice([270, 1000, 65803, 65804, 65805])
    return rng.randint(270, 600)


def opt_num(rng):
    c = rng.random()
    if c < 0.40: return rng.choice(G.KNOWN_OPTS)
    if c < 0.55: return rng.choice(FREE)
    if c < 0.75: return rng.choice([0, 1, 12, 13, 14, 24, 25, 26, 268, 269, 270, 280, 281, 282, 283, 537, 538, 539])
    if c < 0.9: return rng.randint(0, 600)
    return rng.randint(0, 65535)


def opt_len(rng, num, code, big, legal=True):
    if code < 224 and num in G.LIMITS and legal:
        lo, hi = G.LIMITS[num]
        return rng.choice([lo, hi, rng.randint(lo, hi)])
    c = rng.random()
    if c < 0.35: return rng.randint(0, 4)
    if c < 0.60: return rng.choice([11, 12, 13, 14])
    if c < 0.80: return rng.choice([267, 268, 269, 270])
    if big and c < 0.90: return rng.choice([65803, 65804, 65805, 65806, 70000])
    return rng.randint(15, 400)


def gen_script(rng, big, edits=False):
    """returns (code, [ops]) — a C01 build script; edits=True mixes in U/R/K/I calls (used by C04 too)"""
    code = rng.choice([1, 1, 2, 3, 4, 69, 68, 132, 160, 225, 226, 228, 229, rng.randint(1, 255)])
    if rng.random() < 0.03:
        code = 0
    ops = []
    if rng.random() < 0.85:
        ops.append("T" + val(rng, tok_len(rng, big)))
    n = rng.choice([0, 1, 2, 3, 4, 5, 6, 8, 12])
    nums = [opt_num(rng) for _ in range(n)]
    if nums and rng.random() < 0.4:                      # illegal / legal repetitions
        nums.append(rng.choice(nums)); nums.append(rng.choice(NONREP + [11, 15, 4]))
    if 1 <= code < 32 and rng.random() < 0.15:
        nums.append(rng.choice([35, 39]))
    order = rng.random()
    if order < 0.35: nums.sort()
    elif order < 0.45: nums.sort(reverse=True)
    else: rng.shuffle(nums)
    legal = rng.random() < 0.9
    for num in nums:
        k = "O"
        if edits or rng.random() < 0.15:
            k = rng.choice(["O", "I", "I", "U"])
        ops.append("%s%d:%s" % (k, num, val(rng, opt_len(rng, num, code, big, legal))))
        if edits and rng.random() < 0.25:
            ops.append("R%d" % rng.choice(nums))
        if edits and rng.random() < 0.12:
            ops.append("K" + val(rng, tok_len(rng, big)))
    c = rng.random()
    if c < 0.55:
        ops.append("D" + val(rng, rng.choice([1, 2, 11, 12, 13, 14, 267, 268, 269, 270, rng.randint(1, 300)] +
                                             ([65790, 65804, 65805, 65806, 66000] if big else []))))
        if rng.random() < 0.25:                          # calls after the payload
            num = opt_num(rng)
            ops.append("%s%d:%s" % (rng.choice(["O", "I", "U"]), num, val(rng, opt_len(rng, num, code, big))))
        if rng.random() < 0.1:
            ops.append("D01")
    if rng.random() < 0.05:
        ops.append("T01")                                # token after something else: refused
    return code, ops


def script_size(ops):
    """rough upper bound of used_size, to pick maximum sizes that bite"""
    n = 0
    for o in ops:
        v = o.split(":")[-1] if ":" in o else o[1:]
        if v.startswith("*"):
            n += int(v.split("*")[1])
        elif v != "-" and not o.startswith("R"):
            n += len(v) // 2
        n += 5
    return n


# ---- WebSocket write side: `wsw` lines (harness/codec.c do_wsw, Driver/WsWriter.lean)
WS_LENS = [0, 1, 2, 3, 4, 5, 6, 13, 14, 124, 125, 126, 127, 128, 255, 256, 1000, 1471, 1472, 1473]
WS_BIG = [65534, 65535, 65536, 65537, 70000]
WS_KEYS = ["00000000", "ffffffff", "01020304", "80000000", "000000ff"]


def ws_hdr_len(role, n):
    return 2 + (0 if n <= 125 else 2 if n <= 65535 else 8) + (4 if role == "c" else 0)


def gen_accs(rng, role, n):
    """acceptance script of the lower layer for one item whose frame has ws_hdr_len + n bytes"""
    c = rng.random()
    if c < 0.45:
        return "a"
    h = ws_hdr_len(role, n)
    out = []
    for _ in range(rng.choice([1, 1, 2, 3, 5])):
        d = rng.random()
        if d < 0.15: k = 0
        elif d < 0.45: k = rng.randint(1, h)                       # inside / just at the end of the header
        elif d < 0.55: k = h + rng.choice([0, 1, 2, 3, 4, 5])      # key offsets 0..3 of the continuation
        elif d < 0.60: k = -1
        else: k = rng.randint(1, h + n + 2)
        out.append(str(k))
    if rng.random() < 0.8:
        out.append("a")
    return ",".join(out)


def gen_wsw(rng, big):
    role = rng.choice("cs")
    items = []
    for _ in range(rng.choice([1, 1, 2, 2, 3, 4])):
        key = rng.choice(WS_KEYS) if rng.random() < 0.5 else "%08x" % rng.getrandbits(32)
        if rng.random() < 0.08:
            items.append("C%s:%d:%s" % (key, rng.choice([0, 1000, 1002, 1009, 65535, rng.randint(0, 65535)]),
                                        rng.choice(["a", "a", "a", str(rng.randint(0, 9)), "-1"])))
            continue
        c = rng.random()
        if big and c < 0.5: n = rng.choice(WS_BIG)
        elif c < 0.6: n = rng.choice(WS_LENS)
        else: n = rng.randint(0, 300)
        items.append("W%s:%s:%s" % (key, val(rng, n), gen_accs(rng, role, n)))
    return "wsw %s %s" % (role, ";".join(items))


def generate(ctx, escalate=False):
    rng = ctx.rng
    n = 200000 if ctx.thorough() else 20000
    if escalate:
        n *= 3
    out = []
    for i in range(n // 10):
        out.append(gen_wsw(rng, rng.random() < 0.03))
    for i in range(n):
        proto = rng.choice(["udp", "udp", "tcp", "tcp", "ws", "ws", "dtls", "tls", "wss"])     # D17: secured = plain framing
        big = rng.random() < (0.05 if ctx.thorough() else 0.02)
        code, ops = gen_script(rng, big)
        c = rng.random()
        if c < 0.55: ms = 0
        elif c < 0.70: ms = rng.choice([1152, 1400, 65535, 8388858, 8388859])
        else: ms = max(1, rng.randint(1, script_size(ops) + 4))
        out.append("build %s %d %d %d %d %s" % (proto, ms, rng.randint(0, 3), code, rng.choice([0, 1, 65535, rng.randint(0, 65535)]),
                                                  ";".join(ops) if ops else "-"))
    return out


# ---------------------------------------------------------------- judge
def fields(s):
    """'steps=… hdr=… bytes=… built=<dump with spaces> reparse=<dump>' → dict"""
    d = {}
    if s is None or " built=" not in s:
        return d
    head, rest = s.split(" built=", 1)
    built, reparse = rest.split(" reparse=", 1)
    for w in head.split():
        if "=" in w:
            k, v = w.split("=", 1); d[k] = v
    d["built"], d["reparse"] = built, reparse
    return d


def rc_pattern(steps):
    if steps in (None, "-"):
        return ""
    return "".join("0" if st.split(".")[0] == "0" else "1" for st in steps.split(","))


def in_domain(line):
    """decided from the INPUT only: does the script stay inside the property's hypotheses (D2, value length limits)?"""
    w = line.split()
    if w[0] != "build":
        return True
    code = int(w[4])
    if code == 0:
        return w[6] == "-"
    if w[6] == "-":
        return True
    for o in w[6].split(";"):
        if o[0] in "OIU":
            num, v = o[1:].split(":")
            num = int(num)
            ln = int(v.split("*")[1]) if v.startswith("*") else (0 if v == "-" else len(v) // 2)
            if not G_len_ok(code, num, ln):
                return False
    return True


CSM = {225: {2: (0, 4), 4: (0, 0), 6: (0, 3)}, 226: {2: (0, 0)}, 227: {2: (0, 0)}, 228: {2: (1, 255), 4: (0, 3)}, 229: {2: (0, 2)}}


def G_len_ok(code, num, ln):
    if ln > 65804:
        return True      # refused by the API: never in the message
    if code < 224:
        lo, hi = G.LIMITS.get(num, (0, 65804))
        return lo <= ln <= hi
    if code in CSM:
        if num in CSM[code]:
            lo, hi = CSM[code][num]
            return lo <= ln <= hi
        return num % 2 == 0
    return True


EMPTY_DIGEST = "0.811c9dc5"


def script_ops(line):
    w = line.split()
    opsw = w[6] if w[0] == "build" else w[4] if w[0] == "edit" else "-"
    return opsw.split(";") if opsw != "-" else []


def refused_changes(line, fi):
    """[(index, op, digest before, digest after)] for calls that returned 0 and changed used_size or the buffer hash.
    Only for `build` (the digest before the first call is the empty buffer's)."""
    if not fi or line.split()[0] not in ("build", "edit") or fi.get("steps") in (None, "-"):
        return []
    out = []
    prev = EMPTY_DIGEST if line.split()[0] == "build" else fi.get("start")
    if prev is None:
        return []
    for k, (op, st) in enumerate(zip(script_ops(line), fi["steps"].split(","))):
        if "." not in st:
            break
        rc, dig = st.split(".", 1)
        if rc == "0" and dig != prev:
            out.append((k, op, prev, dig))
        prev = dig
    return out


def s_alts(s):
    """S line → [(False, msg, bytes)] (the first component tagged results needing the semantics of the former open
    finding hop-limit-left-by-refused-proxy; the driver no longer emits such results since the defect is fixed)"""
    out = []
    for a in s.split(" ", 1)[1].split(" || "):
        if "msg=" not in a:
            continue                  # `norun …` / `null` (C04 D17): no admissible abstract result
        tag = a.startswith("leftover ")
        out.append((tag, a.split("msg=", 1)[1].rsplit(" bytes=", 1)[0], a.rsplit(" bytes=", 1)[1]))
    return out


def d3(proto, dump):
    """D3: on reliable transports type and mid read back as 0"""
    if proto in ("udp", "dtls"):
        return dump
    w = dump.split(" ")
    return " ".join(["t=0" if x.startswith("t=") else "m=0" if x.startswith("m=") else x for x in w])


# ---- judge of the `wsw` lines: RFC 6455 §5.2 written down once more, independently of the C code and of Lean
def ws_val(v):
    if v == "-":
        return b""
    if v.startswith("*"):
        _, n, seed = v.split("*")
        n, seed = int(n), int(seed)
        return bytes((seed + 7 * i + 13 * (i // 256)) & 255 for i in range(n))
    return bytes.fromhex(v)


def ws_frame(op, masked, key, payload):
    n = len(payload)
    m = 0x80 if masked else 0
    if n <= 125: h = bytes([0x80 | op, m | n])
    elif n <= 65535: h = bytes([0x80 | op, m | 126, n >> 8, n & 255])
    else: h = bytes([0x80 | op, m | 127]) + n.to_bytes(8, "big")
    if masked:
        return h + key, bytes(b ^ key[i & 3] for i, b in enumerate(payload))
    return h, payload


def fnv32(b):
    h = 2166136261
    for x in b:
        h = ((h ^ x) * 16777619) & 0xffffffff
    return h


def ws_dg(b):
    if len(b) == 0: return "-"
    if len(b) <= 48: return b.hex()
    return "#%d.%08x.%s..%s" % (len(b), fnv32(b), b[:8].hex(), b[-8:].hex())


def judge_wsw(ctx, c):
    i, m, s = c["impl"], c["model"], c["spec"]
    w = c["input"].split()
    if i is not None and i.startswith("crash"):
        return ("spec", "coap_ws_write / coap_ws_close aborts the process: " + i[:200])
    if i == "bad-op" or i is None or not i.startswith("up0="):
        return None if i == m else ("tie", "implementation %s but model M says %s" % (short(i), short(m)))
    f = dict(x.split("=", 1) for x in i.split(" "))
    if f["up0"] != "0":
        return ("spec", "a write before the WebSocket layer is up did not return 0 without writing: up0=" + f["up0"])
    masked = w[1] == "c"
    items = w[2].split(";")
    rets = f["rets"].split(",")
    has_err = any(a == "-1" for it in items for a in it.split(":")[2].split(","))
    # D21: a zero-length write whose header is not taken at once is outside the property (0 = "nothing taken" = "done")
    empty_partial = any(it[0] == "W" and it.split(":")[1] == "-" and it.split(":")[2] != "a" for it in items)
    if not has_err and not empty_partial and len(rets) == len(items):
        # the frames the property demands, in order; nothing after the first Close
        frames, closed = [], False
        for it in items:
            key = bytes.fromhex(it[1:9])
            body = it.split(":")[1]
            if closed:
                frames.append((it[0], b"", b"", b""))
            elif it[0] == "W":
                frames.append(("W",) + ws_frame(2, masked, key, ws_val(body)) + (ws_val(body),))
            else:
                r = int(body) or 1000
                frames.append(("C",) + ws_frame(8, masked, key, bytes([r >> 8, r & 255])) + (bytes([r >> 8, r & 255]),))
                closed = True
        stream = b"".join(h + p for _, h, p, _ in frames)
        taken, start = 0, 0
        for (kind, h, p, _), r, it in zip(frames, rets, items):
            calls = [x.split("/") for x in r.split("+")]
            taken += sum(int(x[2]) for x in calls if x[2] != "-")
            if kind == "W":
                claimed = sum(int(x[0]) for x in calls)
                on_wire = max(0, min(len(p), taken - start - len(h)))
                if claimed != on_wire:
                    return ("spec", "coap_ws_write reported %d payload bytes of %s taken, the lower layer has %d of them "
                                    "(rets %s)" % (claimed, short(it), on_wire, r))
            start += len(h) + len(p)
        want = ws_dg(stream[:taken])
        if f["wire"] != want:
            return ("spec", "bytes handed to the lower layer %s are not the first %d bytes of the RFC 6455 frames of the "
                            "messages %s" % (f["wire"], taken, want))
        if s is not None and taken == len(stream):
            fs = ",".join("F0.%d.%s.%s.%s" % (2 if k == "W" else 8, "m" if masked else "u",
                                              h[-4:].hex() if masked else "-", ws_dg(app))
                          for k, h, p, app in frames if h)
            if s != "frames=" + (fs or "-"):
                return ("tie", "Spec.WsFrame.decodeAll on M's bytes says %s, expected %s" % (short(s), short(fs)))
    if i != m:
        return ("tie", "implementation %s but model M says %s" % (short(i), short(m)))
    return None


def judge(ctx, c):
    if c["input"].startswith("wsw "):
        return judge_wsw(ctx, c)
    i, m, s = c["impl"], c["model"], c["spec"]
    proto = c["input"].split()[1]
    if i is not None and i.startswith("crash"):
        return ("spec", "the API call script aborts the process: " + i[:200])
    fi = fields(i)
    dom = in_domain(c["input"])
    # (1) I alone: what was built must be what is re-parsed
    if fi and dom and fi.get("hdr") != "0":
        want = "ok " + d3(proto, fi["built"])
        if fi["reparse"] != want:
            return ("spec", "round trip broken: built %s but the serialised bytes re-parse as %s" % (short(fi["built"]), short(fi["reparse"])))
    if fi and dom and fi.get("hdr") == "0":
        return ("spec", "an API-built message cannot be serialised (coap_pdu_encode_header returned 0)")
    # (1b) I alone, per call: a refused call (rc = 0) must leave the buffer byte-identical (refused_is_noop observed on I)
    bad = refused_changes(c["input"], fi)
    if bad:
        k, op, before, after = bad[0]
        return ("spec", "refused call #%d %s returned 0 but changed the PDU: used_size.fnv32 %s -> %s" % (k + 1, short(op), before, after))
    # (2) I vs S under the same refusal pattern
    if fi and s and s != "skip":
        spat = s.split(" ")[0][4:]
        spat = "" if spat == "-" else spat
        if rc_pattern(fi.get("steps")) == spat:
            alts = [(sm, sb) for tag, sm, sb in s_alts(s) if not tag]
            if not alts:
                alts = [("(no admissible abstract result)", "-")]
            if not any(fi["reparse"] == "ok " + sm for sm, sb in alts):
                return ("spec", "re-parsed message %s differs from the abstract model %s" % (short(fi["reparse"]), short(alts[0][0])))
            if not any(fi["reparse"] == "ok " + sm and fi["bytes"] == sb for sm, sb in alts):
                return ("spec", "serialised bytes %s differ from Spec.encode of the abstract model %s" % (short(fi["bytes"]), short(alts[0][1])))
    # (3) correspondence
    if i != m:
        return ("tie", "implementation %s but model M says %s" % (short(i), short(m)))
    return None


def short(s):
    return s if s is None or len(s) < 200 else s[:190] + "…"


def nontrivial(c):
    if c["input"].startswith("wsw "):
        return c["impl"] is not None and " wire=" in c["impl"] and not c["impl"].endswith("wire=-")
    return "1" in rc_pattern(fields(c["impl"]).get("steps"))


def classify(c):
    w = c["input"].split()
    if w[0] == "wsw":
        part = any(a not in ("a",) for it in w[2].split(";") for a in it.split(":")[2].split(","))
        return "wsw:%s:%s" % ("client" if w[1] == "c" else "server", "partial-writes" if part else "whole-writes")
    f = fields(c["impl"])
    pat = rc_pattern(f.get("steps"))
    return "%s:%s:%s" % (w[1], "limited" if w[2] != "0" else "unlimited", "some-refused" if "0" in pat else "all-accepted")


def search(ctx, tie_breaks, proof):
    """shrunk variants of the disagreeing scripts: every prefix and every single-call deletion"""
    out = []
    for c in tie_breaks[:30]:
        w = c["input"].split()
        if w[0] != "build" or w[6] == "-":
            continue
        ops = w[6].split(";")
        for k in range(1, len(ops)):
            out.append(" ".join(w[:6] + [";".join(ops[:k])]))
        for k in range(len(ops)):
            rest = ops[:k] + ops[k + 1:]
            out.append(" ".join(w[:6] + [";".join(rest) if rest else "-"]))
    return out


def shrink(ctx, case):
    """greedy call deletion while the implementation still contradicts the specification"""
    from vlib.runner import diff_side
    import props.C01 as me
    w = case["input"].split()
    if w[0] != "build" or w[6] == "-":
        return case
    ops = w[6].split(";")
    best = case
    changed = True
    while changed and len(ops) > 1:
        changed = False
        cands = [ops[:k] + ops[k + 1:] for k in range(len(ops))]
        lines = [" ".join(w[:6] + [";".join(x)]) for x in cands]
        for cc, x in zip(diff_side(ctx, me, lines), cands):
            v = judge(ctx, cc)
            if v and v[0] == "spec":
                cc["why"] = v[1]; best = cc; ops = x; changed = True
                break
    return best


# ---- T1Y: the numerals of this property's models are tied to the current tree.  extract/consts2*.c + a source scan
# rewrite lean/CoapVerif/Generated/Consts2.lean on every check; Props/C01Consts.lean proves `<model numeral / model
# function> = Generated.C2.<name>` (design/T1.md).  A changed macro / enum value / case label / literal breaks one of
# these named obligations.
LEAN_MODULES = list(LEAN_MODULES) + ["CoapVerif.Props.C01Consts"]
REQUIRED_THEOREMS = list(REQUIRED_THEOREMS) + [
    "pduInit_bound_matches_code",
    "repeatableConsts_match_code",
    "optEncodeSize_matches_code",
    "optSetHeader_matches_code",
    "tokBias_matches_code",
    "tokHdr_matches_code",
    "encodeHeader_udp_matches_code",
    "encodeHeader_tcp_numerals_match_code",
    "build_numerals_match_code",
    "wsLenField_matches_code",
    "wsHeader_matches_code",
    "wsCloseFrame_matches_code",
    "wsCloseDefaultReason_matches_code",
]
TRUSTED_BASE = list(TRUSTED_BASE) + ["T1 extractors extract/consts2.c, consts2_net.c, consts2_opt.c, consts2_res.c and the source scan vlib/tables.py scan_consts2 / scan_oscore_protect (Generated/Consts2.lean)"]
_t1x_prev_extract = globals().get("extract")


def extract(ctx):
    from vlib import tables
    return (_t1x_prev_extract(ctx) if _t1x_prev_extract else []) + tables.extract_consts2()
