"""C19 — (D)TLS sessions exchange application data only after an authenticated handshake (DESIGN.md §4 C19, design/C19.md)."""
import os, re, sys
from vlib import common as C
from vlib.simlib import SIM_WRAPS

MANIFEST = {
    "text": "Lean theorems over ALL histories (any sequence of application sends, datagram arrivals / TCP connect completions, socket "
            "reads and writes, DTLS and CoAP timer expiries, disconnects, release, each with ANY answers of the TLS library) of a "
            "transcription M of libcoap's DTLS and TLS session gating (coap_send_pdu gate, delay queue, coap_session_connected / "
            "disconnected_lkd / free, coap_dtls_send / receive / hello / handle_timeout, coap_tls_establish / write / read, "
            "coap_session_send_csm and the CSM that opens the delay queue on a reliable transport, coap_read_session, "
            "do_gnutls_handshake, layer table, ClientHello pre-filter) with GnuTLS as an oracle: no handler call and no PDU written "
            "before the oracle reported a completed handshake (no_handler_before_hsOk, nothing_queued_written_before_established, "
            "client_life_gated, server_life_gated and their tls_* instances for Proto.tls), every write of a (D)TLS session goes "
            "through coap_dtls_send / coap_tls_write (no_cleartext_on_dtls_session), ESTABLISHED only after the oracle's success "
            "(failure_never_establishes), cleartext CoAP at the DTLS endpoint creates no session and no output "
            "(cleartext_coap_at_dtls_endpoint_dropped); exact step theorems for the failure path on every protocol (one NACK per "
            "queued CON, queues empty: queued_con_one_nack_on_failure_partial, tls_queued_con_one_nack_on_failure), release and the "
            "in-order flush (DTLS: NSTART prefix; TLS: the whole queue).  Block mode (COAP_BLOCK_USE_LIBCOAP: the lg_crcv list made by "
            "coap_send_lkd, expired by a response / a timeout, reported by coap_session_disconnected_lkd only when nothing else was) is "
            "part of M: a queued Confirmable that also has an lg_crcv entry (Observe) is named by exactly one NACK of the failure step "
            "(queued_con_exactly_one_nack_on_failure, a count).  A second model (Coap.PskSelect) transcribes libcoap's SERVER-SIDE "
            "credential callbacks (post_client_hello_gnutls_psk with its per-context SNI cache, psk_server_callback, "
            "coap_get_session_server_psk_key): whatever handshakes a server context has seen before, the key handed to the TLS library "
            "for a server name and identity is the one S says is configured for them (server_key_history_independent), and S accepts a "
            "configuration only if that key is the client's (accepts_ok_key).  M is tied to the compiled code by exact trace equality on "
            "scenarios run with the REAL GnuTLS on both sides: DTLS on a virtual clock and a scripted wire with loss / duplication / "
            "cleartext injection; TLS over REAL loopback TCP sockets (server and client context in one process, one epoll event per "
            "step, five interleavings of connect / accept / first coap_send incl. the coap_client_delay_first wait); the oracle's "
            "answers are observed through wrapped gnutls_* calls and replayed into M; DTLS scenarios also run EARLIER clients (other "
            "keys / identities / server names) against the same server context, and libcoap's own credential callbacks are observed "
            "through trampolines (key handed to GnuTLS per identity / server name) and compared with Coap.PskSelect and with S; the property is also read off the "
            "implementation's own output and everything written to the wire is scanned for bytes outside (D)TLS records; the "
            "observed handshake verdict is judged against a credential specification S.",
    "note": "Partial: the handshake and record protection are GnuTLS's (oracle; trusted to report success only when both sides accepted "
            "the credentials).  'Exactly one NACK per queued CON' and 'delivered in order exactly once' are proved for the failure / "
            "release / flush step exactly (_partial), not as whole-trace theorems; the python oracle checks them on every scenario.  TLS: "
            "one CoAP message per TLS record (what libcoap writes); stream reassembly across records is C05's.  The TLS run uses real "
            "time and real sockets: its interleavings are the five scripted ones, not arbitrary.  Trusted: Lean kernel (+ propext, "
            "Classical.choice, Quot.sound), harnesses + wraps + oracle, the hand transcription M (checked on the scenarios run).",
    "design_ref": "DESIGN.md §4 C19, design/C19.md",
}
LEAN_MODULES = ["CoapVerif.Props.C19"]
NAMESPACE = "Coap.C19"
REQUIRED_THEOREMS = ["no_handler_before_hsOk", "no_cleartext_on_dtls_session", "queued_con_one_nack_on_failure_partial",
                     "queued_con_one_nack_on_release", "queued_delivered_in_order_once_on_success_partial",
                     "send_before_established_is_held", "cleartext_coap_at_dtls_endpoint_dropped", "dgram_without_tls_ignored",
                     "nothing_queued_written_before_established", "failure_never_establishes", "client_life_gated",
                     "server_life_gated", "mark_iff_oracle_ok",
                     "tls_no_handler_before_hsOk", "tls_nothing_written_before_hsOk", "tls_client_life_gated", "tls_server_life_gated",
                     "tls_queued_con_one_nack_on_failure", "tls_queued_con_one_nack_on_release",
                     "tls_queued_delivered_in_order_once_on_success", "queued_con_one_nack_on_release_any",
                     "queued_con_exactly_one_nack_on_failure", "send_before_established_is_held_block_mode",
                     "server_key_history_independent", "accepts_ok_key",
                     "queued_con_one_nack_on_failure", "ledger_before_established",
                     "queued_first_flush_in_order_once_on_success", "icmp_notification_is_extra",
                     "newClient_start", "endpoint_start", "newClientTls_start", "accept_start",
                     "queued_delivered_in_order_once_on_success", "first_transmissions_in_order",
                     "nack_ledger_any_history", "queued_not_nacked_while_held", "double_report_only_first_inflight",
                     "queued_con_nacked_on_later_failure", "queued_con_delivered_once_or_nacked",
                     "icmp_report_names_nothing_queued_trace", "icmp_report_names_no_queued_message",
                     "d19a_first_inflight_reported_twice"]
RULE = ("one line = one whole scenario with the REAL GnuTLS on both sides in one process (virtual clock for libcoap and GnuTLS, "
        "scripted wire): a server context with a DTLS endpoint configured by coap_context_set_psk2 (default key, identity table, "
        "hint, SNI table) and a client session from coap_new_client_session_psk2 (identity, key, hint callback, SNI); credential "
        "configurations: equal / same length different / prefix / empty keys, unknown identity, identity a prefix of a known one, "
        "hint accepted / rejected / absent, SNI known / unknown / with another key / absent; 0..3 CON/NON requests queued right "
        "after the session is created; per datagram deliver / drop / duplicate during and after the handshake; cleartext CoAP "
        "injected at the DTLS endpoint from the client's address and from another one and a forged cleartext response injected "
        "at the client's socket, before / during / after the handshake; early release of the session; the server's idle "
        "timeout; bm=1: the client context uses COAP_BLOCK_USE_LIBCOAP and the queue also holds Observe registrations (O CON, M NON), "
        "so that queued requests have lg_crcv entries; pre=: one or two EARLIER client sessions (same / other key, identity, server "
        "name incl. prefixes / extensions of known names) complete or fail their handshake against the same server context first.  `tls` lines: the same over TLS on REAL loopback TCP sockets (harness/tls.c: server context with a TLS endpoint on "
        "127.0.0.1 port 0 and a client context in one process, coap_io_do_epoll driven one event at a time, alternating, until "
        "nothing is ready and no written byte is unacknowledged; wall-clock watchdog): every credential configuration x five "
        "interleavings (connect() completing at once = requests queued in HANDSHAKE state; connect in progress = the first "
        "coap_send waits in coap_client_delay_first with both contexts or only the client running; server accepting before or "
        "after the ClientHello is there) x queues of 0..3 CON/NON, early release; every byte written to a TCP socket must lie in "
        "a TLS record (type 20-23, version 3.x) written from inside a gnutls_* call.  non-trivial = distinct scenario in which at "
        "least one request was queued and at least 3 datagrams / TCP writes were made")
TRUSTED_BASE = ["Lean 4.33 kernel; axioms allowed: propext, Classical.choice, Quot.sound (audited per theorem each run)",
                "GnuTLS (the ORACLE): gnutls_handshake reports success only when both sides accepted the credentials; record "
                "protection; its answers are observed per case through wrapped gnutls_* calls and replayed into M",
                "harness/dtls.c on sim_core.h (virtual clock incl. GnuTLS' via _gnutls_global_set_gettime_function, scripted "
                "datagram network, --wrap of the GnuTLS entry points libcoap uses and of coap_dtls_send / "
                "coap_dtls_handle_timeout / coap_retransmit / coap_block_check_lg_crcv_timeouts, trampolines installed by wrapping "
                "gnutls_psk_set_server_credentials_function / gnutls_handshake_set_post_client_hello_function), harness/dtls_pipe.py, "
                "generators and the python oracle that reads the implementation's own output",
                "harness/tls.c (real loopback TCP, real time; --wrap of connect (conn=now: the TCP handshake completes inside the "
                "call; TCP_NODELAY), coap_io_process_lkd (the wait of coap_client_delay_first runs the harness' loop and is told "
                "6 s have passed once nothing moves), coap_tls_write, coap_netif_strm_write (the sniffer), coap_free_type and the "
                "GnuTLS entry points)",
                "M (CoapVerif/Model/TlsGate.lean, CoapVerif/Model/PskSelect.lean) is a hand transcription of libcoap's DTLS and TLS "
                "session gating and of its server-side PSK callbacks; checked against the compiled code only on the scenarios run"]
ASSUMPTIONS = ["partial: the handshake itself and record protection are GnuTLS's (oracle); what is proved is libcoap's gating given "
               "the oracle's answers",
               "partial: TLS over TCP is modelled for one CoAP message per TLS record (SPEC DECISION D19c); the TLS run explores five "
               "scripted interleavings on real sockets, not arbitrary loss / reordering (TCP has none) and not arbitrary timing",
               "TLS: coap_send turns every PDU of a reliable session into CON, so a request submitted as NON is NACKed like a CON on "
               "failure (at most once: D19b'); a request coap_send refused synchronously (socket already closed) is not queued; a "
               "request already WRITTEN on an established TLS session is not tracked (reliable transport): its fate is C05/C06's",
               "'exactly one NACK' is about requests held in the delay queue (D19a); a queued NON is dropped silently (D19b)",
               "dispatch is modelled for the messages a GET exchange produces (request, piggy-backed / NON response, empty ACK, RST)",
               "block mode: lg_crcv entries are modelled for GET requests with / without an Observe option against a resource that is not "
               "observable (no Block1/Block2 transfer, no OSCORE, no 4.01 Echo); a response matches an entry by its application token "
               "(the harness seeds session->tx_token so that libcoap's internal state tokens cannot equal its one-byte tokens); with an "
               "lg_crcv entry a queued NON may be reported once by coap_session_disconnected_lkd when nothing else was (D19g)",
               "Coap.PskSelect: the application's callbacks are functions of their argument; server names compared as given (lower case); "
               "identities without NUL bytes; the `pre=` scenarios run on DTLS only (the callbacks are the same code for TLS)",
               "compiled Lean definitions agree with the kernel's reading of them"]
SPEC_DECISIONS = ["D19a exactly-one-NACK is about requests queued before establishment; in-flight CONs at teardown are C06/C07's",
                  "D19b a queued Non-confirmable request is dropped silently on failure",
                  "D19c TLS/TCP: one CoAP message per TLS record; reassembly across records is C05's",
                  "D19b' on TLS a request submitted as NON has become CON inside coap_send and may be NACKed (at most once)",
                  "D19f TLS: NACK reasons accepted for a queued request are TLS_FAILED, TLS_LAYER_FAILED and NOT_DELIVERABLE "
                  "(coap_read_session / coap_session_mfree use the latter on reliable transports)",
                  "D19d no client session with an empty key/identity; an empty server key accepts nobody",
                  "D19e absent callbacks accept everything; an SNI table does not know names outside it",
                  "D19g block mode: a queued NON that has an lg_crcv entry may be NACKed (at most once, not after the release); the "
                  "property only bounds the NACKs of Confirmable requests",
                  "D19h what a server accepts is a function of its configuration and the client's server name / identity / key — not of "
                  "the clients it has served before (S.serverKey); an empty key is nobody's"]
RUN_KW = {"timeout": 900}
WRAPS = SIM_WRAPS + ["coap_dtls_send", "coap_dtls_handle_timeout", "coap_retransmit", "coap_free_type", "gnutls_handshake",
                     "gnutls_record_recv", "gnutls_record_send", "gnutls_bye", "gnutls_alert_send", "gnutls_dtls_cookie_verify",
                     "gnutls_dtls_cookie_send", "gnutls_init", "coap_block_check_lg_crcv_timeouts",
                     "gnutls_psk_set_server_credentials_function", "gnutls_handshake_set_post_client_hello_function"]


TLS_WRAPS = ["coap_tls_write", "coap_free_type", "coap_netif_strm_write", "coap_io_process_lkd", "connect", "gnutls_handshake",
             "gnutls_record_recv", "gnutls_record_send", "gnutls_bye", "gnutls_alert_send", "gnutls_init"]


def harness(ctx):
    bdir = C.build_libcoap()
    out = os.path.join(bdir, "h_dtls")
    core = os.path.join(C.VERIF, "harness", "sim_core.h")
    if os.path.exists(out) and os.path.getmtime(core) > os.path.getmtime(out):
        os.unlink(out)
    h = C.build_harness("dtls", bdir, wraps=WRAPS)
    return [sys.executable, os.path.join(C.VERIF, "harness", "dtls_pipe.py"), h, C.driver_path()]


def harness_tls(ctx):
    """TLS over TCP: real loopback sockets (harness/tls.c), same pipe (segments replayed through M by op `tlsgate`)"""
    h = C.build_harness("tls", C.build_libcoap(), wraps=TLS_WRAPS)
    return [sys.executable, os.path.join(C.VERIF, "harness", "dtls_pipe.py"), h, C.driver_path()]


HARNESS_FOR_OP = {"tls": harness_tls}
# real sockets and real time: fewer, larger shards are not needed — every scenario costs ~15 ms of waiting for quiescence
RUN_KW_FOR_OP = {"tls": {"shards": 16}}


# ------------------------------------------------------------------ generator
def hx(s):
    return s.encode().hex() if s else "-"


K1, K2 = "6b6579", "6b6578"                      # "key", "kex"
LONG = "00112233445566778899aabbccddeeff" * 2
CREDS = [
    # (label, words)
    ("equal", []),
    ("equal-long", ["ck=" + LONG, "sk=" + LONG]),
    ("equal-1byte", ["ck=00", "sk=00"]),
    ("diff-samelen", ["ck=" + K1, "sk=" + K2]),
    ("diff-lastbyte-long", ["ck=" + LONG, "sk=" + LONG[:-2] + "fe"]),
    ("client-prefix", ["ck=6b65", "sk=" + K1]),
    ("server-prefix", ["ck=" + K1, "sk=6b65"]),
    ("client-longer-nul", ["ck=" + K1 + "00", "sk=" + K1]),
    ("client-empty", ["ck=-"]),
    ("server-empty", ["sk=-"]),
    ("table-known", ["st=6964:" + K1]),
    ("table-known-2nd", ["st=6162:" + K2 + ",6964:" + K1]),
    ("table-known-otherkey-default", ["st=6964:" + K2, "ck=" + K2, "sk=" + K1]),
    ("table-unknown", ["st=6162:" + K1]),
    ("table-id-prefix", ["ci=69", "st=6964:" + K1]),
    ("table-id-longer", ["ci=696464", "st=6964:" + K1]),
    ("table-key-differs", ["st=6964:" + K2]),
    ("table-empty-key", ["st=6964:-"]),
    ("hint-accepted", ["sh=68696e74", "ih=68696e74"]),
    ("hint-accepted-any", ["sh=68696e74", "ih=*"]),
    ("hint-accepted-list", ["sh=68696e74", "ih=6162,68696e74"]),
    ("hint-rejected", ["sh=68696e74", "ih=6162"]),
    ("hint-rejected-prefix", ["sh=68696e74", "ih=6869"]),
    ("hint-absent-accepted", ["ih=e"]),
    ("hint-absent-rejected", ["ih=6162"]),
    ("hint-ignored", ["sh=68696e74"]),
    ("hint-ok-key-differs", ["sh=68696e74", "ih=68696e74", "sk=" + K2]),
    ("sni-known", ["sni=686f7374", "ss=686f7374:68:" + K1]),
    ("sni-known-2nd", ["sni=686f7374", "ss=6e6f6e65:68:" + K2 + ",686f7374:68:" + K1]),
    ("sni-key-differs", ["sni=686f7374", "ss=686f7374:68:" + K2]),
    ("sni-key-not-default", ["sni=686f7374", "ss=686f7374:68:" + K2, "ck=" + K2]),
    ("sni-unknown", ["sni=686f7374", "ss=686f7375:68:" + K1]),
    ("sni-absent-table", ["ss=686f7374:68:" + K1]),
    ("sni-no-table", ["sni=686f7374"]),
    ("sni-hint-accepted", ["sni=686f7374", "ss=686f7374:68:" + K1, "ih=68"]),
    ("sni-hint-rejected", ["sni=686f7374", "ss=686f7374:68:" + K1, "ih=69", "sh=69"]),
    ("sni-table-and-idtable", ["sni=686f7374", "ss=686f7374:68:" + K2, "st=6964:" + K1]),
    ("sni-table-and-idtable-unknown", ["sni=686f7374", "ss=686f7374:68:" + K1, "st=6162:" + K1]),
    # two server names, one a prefix of the other, different keys (the SNI cache is searched by name)
    ("sni-prefix-name-first", ["sni=686f7374", "ss=686f73:68:" + K2 + ",686f7374:68:" + K1]),
    ("sni-prefix-name-asked", ["sni=686f73", "ss=686f7374:68:" + K2 + ",686f73:69:" + K1]),
    ("sni-longer-name-asked", ["sni=686f737478", "ss=686f7374:68:" + K2 + ",686f737478:68:" + K1]),
]
QS = ["", "C", "N", "CC", "CN", "NC", "NN", "CCC", "CNC", "NCC", "CCN", "NNC", "NCN", "CNN", "NNN"]
# block mode (bm=1: the client context uses COAP_BLOCK_USE_LIBCOAP): O / M = Confirmable / Non-confirmable GET with an Observe
# option; every O, M and N then has an lg_crcv entry next to its place in the delay queue
QS_BM = ["O", "M", "CO", "OC", "OO", "NO", "ON", "MC", "CM", "OM", "MO", "N", "NN", "OCO", "COC", "NOC", "CNO", "MMO", "OON", "C", "CC"]
CON_KINDS = "CO"


def gen_queue(rng, bm):
    if not bm:
        return rng.choice(QS)
    if rng.random() < 0.5:
        return rng.choice(QS_BM)
    return "".join(rng.choice("CNOM") for _ in range(rng.randrange(0, 4)))


def gen_pre(rng, words):
    """earlier clients against the same server context: the same client again, the same with another key (the server's
    default key, a key of the SNI / identity table, …), another identity, another / no server name"""
    cfg = dict(w.split("=", 1) for w in words)
    keys = {"=", K1, K2, cfg.get("sk", K1), cfg.get("ck", K1)}
    names = {"=", "-", "686f7374", "686f7375"}
    ids = {"=", "=", "6964", "6162"}
    for e in cfg.get("ss", "").split(","):
        f = e.split(":")
        if len(f) == 3:
            names.add(f[0]); keys.add(f[2])
            names.add(f[0][:-2]); names.add(f[0] + "78")          # a prefix / an extension of a known name
    for e in cfg.get("st", "").split(","):
        f = e.split(":")
        if len(f) == 2:
            ids.add(f[0]); keys.add(f[1])
    keys = sorted(k for k in keys if k not in ("-", ""))
    out = []
    for _ in range(rng.choice([1, 1, 2])):
        out.append("%s:%s:%s" % (rng.choice(keys), rng.choice(sorted(ids)), rng.choice(sorted(names))))
    return "pre=" + ",".join(out)


def gen_fate(rng):
    c = rng.random()
    if c < 0.3:
        return ""
    n = rng.choice([14, 20, 30, 45])
    if c < 0.5:                      # one event
        k = rng.randrange(n)
        return "d" * k + rng.choice("x2x")
    if c < 0.62:                     # two events
        f = ["d"] * n
        for _ in range(2):
            f[rng.randrange(n)] = rng.choice("x2x")
        return "".join(f).rstrip("d")
    if c < 0.72:                     # loss only after the handshake (13 datagrams of a loss-free handshake)
        return "d" * 13 + "".join(rng.choice("dxd2x") for _ in range(rng.randrange(1, 12)))
    if c < 0.8:                      # duplicates only
        return "".join(rng.choice("d2") for _ in range(n))
    p = rng.choice([0.1, 0.2, 0.35, 0.6])
    return "".join("d" if rng.random() > p else rng.choice("x2x") for _ in range(n + 20)).rstrip("d")


def gen_line(rng, cred=None, q=None):
    label, words = cred if cred else rng.choice(CREDS)
    w = list(words)
    bm = rng.random() < 0.25
    if bm:
        w.append("bm=1")
    if rng.random() < 0.2:
        w.append(gen_pre(rng, words))
    w.append("q=" + (q if q is not None else gen_queue(rng, bm)))
    f = gen_fate(rng)
    if f:
        w.append("f=" + f)
    if rng.random() < 0.35:
        inj = []
        for _ in range(rng.choice([1, 1, 2, 3])):
            inj.append("%d%s" % (rng.choice([0, 1, 2, 3, 5, 7, 9, 10, 11, 12, 13, 14, 16, 20, 99]), rng.choice("cor")))
        w.append("inj=" + ",".join(inj))
    if rng.random() < 0.12:
        w.append("rel=%d" % rng.choice([0, 1, 2, 4, 6, 9, 11, 12, 13, 14, 15, 17, 20]))
    if rng.random() < 0.08:
        w.append("idle=1")
    rng.shuffle(w)
    return "dtls " + " ".join(w)


# TLS over TCP: how the TCP connect, the server's accept and the first coap_send() interleave (harness/tls.c)
TLS_SCHED = [[], ["conn=prog"], ["conn=prog", "acc=early"], ["conn=prog", "wait=client"], ["conn=prog", "acc=early", "wait=client"]]


def gen_tls_line(rng, cred=None, q=None, sched=None):
    label, words = cred if cred else rng.choice(CREDS)
    w = list(words) + list(sched if sched is not None else rng.choice(TLS_SCHED))
    bm = rng.random() < 0.25
    if bm:
        w.append("bm=1")
    w.append("q=" + (q if q is not None else gen_queue(rng, bm)))
    if rng.random() < 0.1:
        w.append("rel=now")
    rng.shuffle(w)
    return "tls " + " ".join(w)


def generate_tls(ctx, escalate=False):
    rng = ctx.rng
    out = []
    # every credential configuration x every schedule, with a queue that has a CON in it (rotating) …
    qs = ["C", "CN", "NC", "CCC", "NCN", "CC", "N", ""]
    k = 0
    for cred in CREDS:
        for sch in TLS_SCHED:
            for q in (QS if ctx.thorough() else [qs[k % len(qs)]]):
                out.append("tls " + " ".join(list(cred[1]) + sch + ["q=" + q]))
            k += 1
        # block mode: every request of a reliable session has an lg_crcv entry
        out.append("tls " + " ".join(list(cred[1]) + TLS_SCHED[k % len(TLS_SCHED)] + ["bm=1", "q=" + ["C", "CC", "ON", "NC"][k % 4]]))
    n = 4000 if ctx.thorough() else 400
    if escalate:
        n *= 2
    out += [gen_tls_line(rng) for _ in range(n)]
    return out


def generate(ctx, escalate=False):
    rng = ctx.rng
    out = generate_tls(ctx, escalate)
    # every credential configuration x every queue, loss-free
    for cred in CREDS:
        for q in (QS if ctx.thorough() else ["", "C", "N", "CN", "NC", "CCC", "NCN"]):
            out.append("dtls " + " ".join(list(cred[1]) + ["q=" + q]))
    # every credential configuration in block mode: Observe registrations / Non-confirmables (lg_crcv entries) queued
    for k, cred in enumerate(CREDS):
        for q in (QS_BM if ctx.thorough() else ["O", ["CO", "OC", "OO", "MO"][k % 4], ["NM", "ON", "N", "MC"][k % 4]]):
            out.append("dtls " + " ".join(list(cred[1]) + ["bm=1", "q=" + q]))
    # every credential configuration on a server context that has served a client before: the same client; a client with the
    # same identity / server name but ANOTHER key (the server's default key, the other test key); then the same one twice
    for cred in CREDS:
        cfg = dict(w.split("=", 1) for w in cred[1])
        other = [k for k in (cfg.get("sk", K1), K2, K1) if k not in ("-", cfg.get("ck", K1))]
        pres = ["=:=:=", "%s:=:=" % other[0], "=:=:=,%s:=:=" % other[0], "%s:=:=,=:=:=" % other[-1]]
        for pre in (pres if ctx.thorough() else pres[:3]):
            out.append("dtls " + " ".join(list(cred[1]) + ["pre=" + pre, "q=C"]))
        # … a client that asked for ANOTHER server name of the table (with that name's key): fills the cache with that name
        for e in cfg.get("ss", "").split(","):
            f = e.split(":")
            if len(f) == 3 and f[0] != cfg.get("sni") and f[2] != "-":
                out.append("dtls " + " ".join(list(cred[1]) + ["pre=%s:=:%s" % (f[2], f[0]), "q=C"]))
    # ICMP errors reported to the client session (coap_session_disconnected_lkd(COAP_NACK_ICMP_ISSUE): advisory, touches neither
    # the delay queue nor the state) while requests are queued behind the handshake; not in block mode (the lg_crcv request IS
    # reported there: Props/C19.lean icmp_notification_is_extra)
    icmps = ["0", "0x2", "1", "2x3", "3", "0x4", "1x2"]
    for k, cred in enumerate(CREDS):
        for j, q in enumerate(["C", "CC", "NC", "CNC"] if ctx.thorough() else [["C", "CC", "NC", "CNC"][k % 4]]):
            out.append("dtls " + " ".join(list(cred[1]) + ["q=" + q, "icmp=" + icmps[(k + j) % len(icmps)]]))
        out.append("dtls " + " ".join(list(cred[1]) + ["q=C", "icmp=" + icmps[(k + 3) % len(icmps)], "rel=%d" % [2, 6, 12][k % 3]]))
    n = 40000 if ctx.thorough() else 3000
    if escalate:
        n *= 2
    out += [gen_line(rng) for _ in range(n)]
    return out


def is_tls(line):
    return line.startswith("tls ")


# ------------------------------------------------------------------ reading a canonical line
SEG = re.compile(r"^([cstpr]):([^/]*)/([^>]*)>([^|]*)\|(.*)$")


def parse_segments(s):
    segs = []
    for seg in s.split(" ; "):
        m = SEG.match(seg)
        if not m:
            raise ValueError("bad segment %r" % seg[:80])
        who, ev, orc, outs, st = m.groups()
        segs.append({"who": who, "ev": ev, "orc": [] if orc == "-" else orc.split(","), "out": [] if outs == "-" else outs.split(","),
                     "st": st})
    return segs


def split_impl(i):
    """'<I segs> | wire … | hs … [| cred …] || <M segs> [|| M <cred> | S <cred>]' -> (segs, wire dict, hs dict, model string,
    (I cred events, M's, S's) or None)"""
    body, _, rest = i.partition(" || ")
    model, _, credms = rest.partition(" || ")
    parts = body.split(" | ")
    wire, hs = {}, {}
    cred = None
    for p in parts[1:]:
        w = p.split()
        if w[0] == "cred":
            cred = [e for e in w[1:] if e != "-"]
            continue
        d = wire if w[0] == "wire" else hs
        for kv in w[1:]:
            k, _, v = kv.partition("=")
            d[k] = v
    if cred is not None:
        m = re.match(r"^M (.*) \| S (.*)$", credms)
        cm, cs = (m.group(1).split(), m.group(2).split()) if m else (["<%s>" % credms], [])
        cred = (cred, [e for e in cm if e != "-"], [e for e in cs if e != "-"])
    return parts[0], wire, hs, model, cred


def cfg_words(line):
    return line.split()[1:]


def phases(inp, isegs, expect_all):
    """a `pre=` scenario is several client sessions against ONE server context, one after the other; each is judged like a
    scenario of its own: -> [(derived input line, segments with who p/r renamed to c/s, S's verdict for that client)]"""
    words = cfg_words(inp)
    m = re.match(r"^expect=(\w+)(?: pre=([\w,]+))?$", expect_all.strip())
    if not m:
        raise ValueError("S answered %r" % expect_all)
    exp_main, exp_pre = m.group(1), (m.group(2).split(",") if m.group(2) else [])
    pre = [w for w in words if w.startswith("pre=")]
    pres = [e.split(":") for e in pre[0][4:].split(",")] if pre and pre[0] != "pre=-" else []
    if len(pres) != len(exp_pre):
        raise ValueError("pre= has %d clients, S answered for %d" % (len(pres), len(exp_pre)))
    if not pres:
        return [(inp, isegs, exp_main, "")]
    groups, cur = [], None
    for sg in isegs.split(" ; "):
        who, ev = sg[0], sg[2:].split("/", 1)[0]
        if who in "pc" and ev in ("new", "newb", "new:fail"):
            cur = [who, []]
            groups.append(cur)
        if cur is None:
            raise ValueError("segment before the first client session: %r" % sg[:60])
        if who != "t" and (who in "pr") != (cur[0] == "p"):
            raise ValueError("segment %r in the phase of client %s" % (sg[:60], cur[0]))
        cur[1].append({"p": "c", "r": "s"}.get(who, who) + sg[1:])
    if [g[0] for g in groups] != ["p"] * len(pres) + ["c"]:
        raise ValueError("client sessions seen %s, expected %d earlier ones and the main one" % ([g[0] for g in groups], len(pres)))
    out = []
    base = [w for w in words if w.split("=")[0] not in ("pre", "q", "f", "inj", "rel", "idle", "icmp")]
    main = dict(w.split("=", 1) for w in base)
    for (k, i, sn), g, e in zip(pres, groups, exp_pre):
        w = [x for x in base if x.split("=")[0] not in ("ck", "ci", "sni")]
        ck, ci, sni = (main.get("ck") if k == "=" else k), (main.get("ci") if i == "=" else i), (main.get("sni") if sn == "=" else sn)
        w += ["%s=%s" % kv for kv in (("ck", ck), ("ci", ci), ("sni", sni)) if kv[1] is not None]
        out.append(("dtls " + " ".join(w + ["q=C"]), " ; ".join(g[1]), e, "earlier client %s:%s:%s: " % (k, i, sn)))
    out.append((inp, " ; ".join(groups[-1][1]), exp_main, ""))
    return out


def cred_judge(cred):
    """the key libcoap's callbacks handed the TLS library, event by event: against S (a contradiction: the client is checked
    against a key that is not the one configured for its server name / identity) and against M (correspondence)"""
    ci, cm, cs = cred
    norm = lambda e: re.sub(r"^(psk:[^:]*):e$", r"\1:fail", e)
    names = []
    for k, e in enumerate(ci):
        if e.startswith("pch:"):
            names.append(e.split(":")[1])
        if k < len(cs) and norm(e) != norm(cs[k]):
            what = ("server name %s" % (names[-1] if names else "-")) if e.startswith("psk:") else "the ClientHello"
            return ("spec", "server-side credential callback %d (%s; handshake no. %d on this server context): libcoap answered `%s`, "
                    "the configuration says `%s`" % (k, what, ci[:k + 1].count("ses"), e, cs[k]))
    if ci != cm:
        for k in range(max(len(ci), len(cm))):
            x = ci[k] if k < len(ci) else "<nothing>"
            y = cm[k] if k < len(cm) else "<nothing>"
            if x != y:
                return ("tie", "server-side credential callback %d: implementation `%s` but model M (Coap.PskSelect) `%s`" % (k, x, y))
    return None


def cfg_of(line):
    d = {}
    for w in line.split()[1:]:
        k, _, v = w.partition("=")
        d[k] = v
    return d


def oracle(inp, isegs, wire, expect):
    """The property, read off the implementation's own output (no model involved).  Returns a reason or None."""
    cfg = cfg_of(inp)
    q = cfg.get("q", "")
    fates = cfg.get("f", "")
    tls = is_tls(inp)
    bm = cfg.get("bm") == "1"          # block mode: a NON (and every request on TLS) has an lg_crcv entry, whose request
    lgnack = tls or bm                 # coap_session_disconnected_lkd may report when nothing else was (at most once)
    segs = parse_segments(isegs)
    if wire.get("cleartext") != "no":
        return "a datagram / TCP write of the (D)TLS session / endpoint is not made of (D)TLS records, was written outside the TLS library or carries a queued payload in clear (wire %s)" % wire
    if tls and wire.get("wd") != "0":
        return "the scenario did not come to rest within the watchdog time (wire %s)" % wire
    hs_ok = {"c": False, "s": False, "t": False}
    ever_est = {"c": False, "s": False, "t": False}
    first_tx, nacks, rsps, reqs = [], {}, {}, []
    refused = set()
    released = False
    created = True
    for k, sg in enumerate(segs):
        who = sg["who"]
        for o in sg["orc"]:
            if o == "hs=ok":
                hs_ok[who] = True
            if o == "!foreign":
                return "segment %d (%s): an oracle answer of another session" % (k, sg["ev"])
        if sg["ev"] in ("new:fail", "tnew:fail"):
            created = False
        if sg["st"].startswith("st=4"):
            ever_est[who] = True
            if not hs_ok[who]:
                return "segment %d (%s:%s): session ESTABLISHED although the TLS library never reported a completed handshake" % (k, who, sg["ev"])
        datatoks = [o.split(":", 1)[1].split(".")[3] for o in sg["orc"] if o.startswith("rec=data:") and o.count(".") >= 3]
        for o in sg["out"]:
            if o.startswith("CLEAR") or o == "!foreign":
                return "segment %d (%s:%s): %s" % (k, who, sg["ev"], o)
            if o.startswith("req:") or o.startswith("rsp:"):
                tok = o.split(":")[1]
                if not hs_ok[who]:
                    return "segment %d (%s:%s): handler called (%s) before the handshake completed on that session" % (k, who, sg["ev"], o)
                if tok not in datatoks:
                    return "segment %d (%s:%s): handler called (%s) for data that did not come out of the TLS library" % (k, who, sg["ev"], o)
                if tok == "ee":
                    return "segment %d: the injected cleartext request reached a handler" % k
                if o.startswith("req:"):
                    reqs.append(tok)
                else:
                    rsps[tok] = rsps.get(tok, 0) + 1
            if who == "c" and o.startswith("tx:"):
                v = o[3:].split(".")
                if not hs_ok["c"]:
                    return "segment %d (c:%s): %s handed to the TLS layer before the handshake completed" % (k, sg["ev"], o)
                if v[1] == "1" and sg["ev"] != "rtx:" + v[2]:          # not the retransmission this timer event is about
                    first_tx.append(v[3])
            if who == "c" and o.startswith("nack:"):
                _, reason, tok = o.split(":")
                nacks.setdefault(tok, []).append((reason, k, released))
            if who == "c" and o == "sendfail" and sg["ev"].startswith("tsend"):
                refused.add(sg["ev"].split(":")[2])          # coap_send() itself said no: the request was never queued
        if who == "c" and sg["ev"] == "rel":
            released = True
    if expect in ("fail", "nosession") and (hs_ok["c"] or hs_ok["s"]):
        return "the handshake completed (client %s, server %s) although the credentials do not match (S: %s)" % (hs_ok["c"], hs_ok["s"], expect)
    if expect == "nosession":
        if created:
            return "a client session was created with an empty key / identity"
        return None
    if not created:
        return "coap_new_client_session_psk2 failed for a usable configuration"
    toks = ["%02x" % (i + 1) for i in range(len(q))]
    if tls:
        # CoAP over TCP has no message types: coap_send() turns every PDU into CON, so a request submitted as NON may be
        # NACKed like a CON (at most once); a request coap_send() refused synchronously was never queued
        for t in refused:
            if nacks.get(t) or t in first_tx:
                return "request %s was refused by coap_send() and still NACKed / written (%s)" % (t, nacks.get(t))
        q = "".join(kd for t, kd in zip(toks, q) if t not in refused)
        toks = [t for t in toks if t not in refused]
    nack_ok = ("tls", "tlslayer", "undeliv") if tls else ("tls", "tlslayer")
    if not hs_ok["c"]:
        # never established on the client: nothing written, one NACK per queued CON, none for NON
        if ever_est["c"]:
            return "client session ESTABLISHED without a completed handshake"
        for t, kind in zip(toks, q):
            ns = nacks.get(t, [])
            if kind in CON_KINDS:
                if len(ns) != 1:
                    return "queued CON %s was reported by %d NACKs (%s), expected exactly one (handshake never completed)" % (t, len(ns), ns)
                if ns[0][0] not in nack_ok:
                    return "queued CON %s NACKed with reason %s, expected a TLS failure" % (t, ns[0][0])
                if ns[0][2]:
                    return "queued CON %s NACKed only after the session had been released" % t
            elif ns and not (lgnack and len(ns) == 1 and not ns[0][2]):
                return "queued NON %s was NACKed (%s)" % (t, ns)
        if reqs or rsps:
            return "handler calls without a completed handshake: %s %s" % (reqs, rsps)
        if expect == "ok" and "x" not in fates and "2" not in fates and "inj" not in cfg and "rel" not in cfg:
            return "matching credentials on a loss-free wire but the handshake did not complete"
        return None
    # established on the client: first transmissions in submission order, each at most once
    if first_tx != sorted(first_tx) or len(set(first_tx)) != len(first_tx):
        return "queued messages were first written in the order %s (submission order is %s)" % (first_tx, toks)
    for t, kind in zip(toks, q):
        ns = nacks.get(t, [])
        if t not in first_tx:
            # never written: the session went away first -> exactly one NACK for a CON
            if kind in CON_KINDS and len(ns) != 1:
                return "queued CON %s was never written and reported by %d NACKs (%s)" % (t, len(ns), ns)
            if kind not in CON_KINDS and ns and not (lgnack and len(ns) == 1):
                return "queued NON %s was NACKed (%s)" % (t, ns)
        elif kind in CON_KINDS and not ns and not rsps.get(t) and not (tls and "rel" in cfg):
            # (a request WRITTEN on a reliable transport is not tracked any more: releasing the session then is silent)
            return "queued CON %s was written but has neither a response nor a NACK at the end" % t
    ded = [t for i, t in enumerate(reqs) if t not in reqs[:i]]
    if "x" not in fates and ded != sorted(ded):          # a lost datagram legitimately lets a later message overtake
        return "requests reached the server handler in the order %s on a wire that lost nothing" % reqs
    if "x" not in fates and "rel" not in cfg and "inj" not in cfg:
        if reqs != toks:
            return "loss-free after a completed handshake: server handler saw %s, queued %s" % (reqs, toks)
        for t in toks:
            if rsps.get(t, 0) != 1:
                return "loss-free after a completed handshake: request %s got %d responses" % (t, rsps.get(t, 0))
    return None


def judge(ctx, c):
    i, m = c["impl"], c["model"]
    if i is None or i.startswith("crash"):
        return ("spec", "the real code aborted on this scenario (sanitizer report / crash): %s" % i)
    if i == "bad-op" or m == "bad-op":
        return None if i == m else ("tie", "bad-op on one side only: impl %s model %s" % (i[:40], (m or "")[:40]))
    if " | wire " not in i:
        return ("tie", "harness could not set the scenario up: %s" % i[:100])
    try:
        isegs, wire, hs, mseg, cred = split_impl(i)
        why = None
        for inp_k, segs_k, expect_k, label in phases(c["input"], isegs, m or ""):
            why = oracle(inp_k, segs_k, wire, expect_k)
            if why:
                why = label + why
                break
        cj = cred_judge(cred) if cred else None
    except Exception as e:
        return ("tie", "unreadable harness output (%s): %s" % (e, i[:200]))
    if why:
        return ("spec", why)
    if cj and cj[0] == "spec":
        return cj
    if isegs != mseg:
        a, b = isegs.split(" ; "), mseg.split(" ; ")
        for k in range(max(len(a), len(b))):
            x = a[k] if k < len(a) else "<nothing>"
            y = b[k] if k < len(b) else "<nothing>"
            if x != y:
                return ("tie", "segment %d: implementation `%s` but model M `%s`" % (k, x[:200], y[:200]))
    return cj


def nontrivial(c):
    i = c["impl"] or ""
    m = re.search(r"wire n=(\d+)", i)
    return bool(m) and int(m.group(1)) >= 3 and "q=" in c["input"] and "q= " not in c["input"] + " " and (" c:send:" in i or " c:tsend" in i)


def classify(c):
    i = c["impl"] or ""
    m = c["model"] or ""
    hs = re.search(r"hs c=(\w+) s=(\w+)", i)
    cfg = cfg_of(c["input"])
    return "%s%s hs=%s q=%d%s%s%s%s%s" % ("tls " + " ".join(sorted(w for w in c["input"].split() if w.split("=")[0] in ("conn", "acc", "wait"))) + " "
                                     if is_tls(c["input"]) else "", m.strip(), hs.group(1) if hs else "?", len(cfg.get("q", "")),
                                   " loss" if "x" in cfg.get("f", "") else "", " dup" if "2" in cfg.get("f", "") else "",
                                   " inj" if "inj" in cfg else "", " bm" if cfg.get("bm") == "1" else "", " pre" if "pre" in cfg else "")


def search(ctx, tie_breaks, proof):
    rng = ctx.rng
    out = []
    for c in tie_breaks[:20]:
        w = c["input"].split()[1:]
        if is_tls(c["input"]):
            # same credentials under every schedule and queue
            creds = [x for x in w if x.split("=")[0] not in ("q", "conn", "acc", "wait", "rel")]
            for sch in TLS_SCHED:
                for q in QS:
                    out.append("tls " + " ".join(creds + sch + ["q=" + q]))
            continue
        for _ in range(60):
            t = [x for x in w if not x.startswith("f=")]
            f = gen_fate(rng)
            if f:
                t.append("f=" + f)
            out.append("dtls " + " ".join(t))
    out += [gen_line(rng) for _ in range(3000)]
    out += [gen_tls_line(rng) for _ in range(300)]
    return out


def shrink(ctx, case):
    """drop configuration words / shorten the fate string while the implementation still contradicts the property"""
    from vlib.runner import diff_side
    import props.C19 as me
    best = case
    op = case["input"].split(" ", 1)[0]
    for _ in range(6):
        w = best["input"].split()[1:]
        cands = [w[:i] + w[i + 1:] for i in range(len(w))]
        for i, x in enumerate(w):
            if x.startswith("f=") and len(x) > 3:
                cands.append(w[:i] + [x[:-1]] + w[i + 1:])
                cands.append(w[:i] + ["f=" + x[2:].replace("2", "d", 1)] + w[i + 1:])
        lines = [op + " " + " ".join(t) for t in cands if t]
        found = None
        for cc in diff_side(ctx, me, lines):
            v = judge(ctx, cc)
            if v and v[0] == "spec" and len(cc["input"]) < len(best["input"]):
                cc = dict(cc); cc["why"] = v[1]
                found = cc
                break
        if not found:
            break
        best = found
    return best


def known(ctx, c):
    return None


# ---- T1X: the numerals of this property's models are tied to the current tree.  extract/consts2*.c + a source scan
# rewrite lean/CoapVerif/Generated/Consts2.lean on every check; Props/C19Consts.lean proves `<model numeral> =
# Generated.C2.<name>` (design/T1.md).  A changed macro / struct size / literal breaks one of these named obligations.
LEAN_MODULES = list(LEAN_MODULES) + ["CoapVerif.Props.C19Consts"]
REQUIRED_THEOREMS = list(REQUIRED_THEOREMS) + [
    "nstart_matches_code",
    "maxRetransmit_matches_code",
    "delayed_matches_code",
    "code401_matches_code",
]
TRUSTED_BASE = list(TRUSTED_BASE) + ["T1 extractors extract/consts2.c, consts2_net.c, consts2_opt.c and the source scan vlib/tables.py scan_consts2 (Generated/Consts2.lean)"]
_t1x_prev_extract = globals().get("extract")


def extract(ctx):
    from vlib import tables
    return (_t1x_prev_extract(ctx) if _t1x_prev_extract else []) + tables.extract_consts2()
