"""C12 — sessions map 1:1 to peers, live while referenced; everything is released (DESIGN.md §4 C12, design/C12.md)."""
import os, re, sys
from vlib import common as C
from vlib.simlib import SIM_WRAPS

MANIFEST = {
    "text": "Lean theorems over ALL histories of a transcription M of libcoap's server-session bookkeeping (session table keyed by remote "
            "address+port / local port / protocol, reference count with its holders, idle eviction, timeout reclamation, teardown order, "
            "allocation ledger): live sessions are a partial injective map from peers (peer_session_functional_injective), ref = number of "
            "holders and holders always point to live sessions (ref_eq_holders, no_free_while_referenced) — an observer entry is a holder "
            "with the reference/release discipline of coap_add_observer, coap_delete_observer* and the RST branch of coap_dispatch: replacing "
            "a subscription by one with a new token changes no reference count (reregistration_keeps_refcount), a Reset that cancels one "
            "observation under its temporary reference drops exactly one reference (rst_releases_exactly_one) —, exactly one session-new and at "
            "most one session-deleted event per session (one_new_one_del_per_session), the oldest idle session is evicted at the idle limit "
            "(oldest_idle_evicted_at_limit), a whole I/O pass coap_io_prepare_io(ctx, now) — notifications, delayed async responses whose "
            "handler takes time so that the clock and last_rx_tx run ahead of the pass's now, retransmissions, the reclamation walk — leaves "
            "no unreferenced idle session with last_rx_tx + session_timeout <= now (idle_reclaimed_after_timeout) and deletes ONLY such "
            "sessions, for any now argument (reclaimed_only_after_timeout, session_used_after_now_survives), after coap_free_context at any point the ledger is empty (teardown_ledger_empty, "
            "ledger_never_bad).  M also covers STREAM sessions (CoAP over TCP: coap_new_server_session, coap_read_session with "
            "session->partial_pdu, coap_session_disconnected_lkd -> state NONE): the reclamation test is transcribed as ref == 0 && "
            "delayqueue == NULL && (timed out || state NONE), a session something refers to survives every pass also when its peer has "
            "closed the connection (referenced_session_survives_pass), a session with an open connection is reclaimed only after the "
            "timeout (open_session_reclaimed_only_after_timeout), the partly received PDU is a ledger object that hangs off a live "
            "session in every reachable state and is released with it — timeout, closed connection, teardown "
            "(partial_pdu_hangs_off_live_session, reclaim_releases_partial_pdu, teardown_ledger_empty).  M also covers the "
            "Confirmables an application sends on a server session (coap_send_pdu / coap_session_delay_pdu / coap_session_connected / "
            "coap_wait_ack / the ACK, RST and bad-packet branches of coap_dispatch with its cleanup: / the give-up of coap_retransmit): "
            "a Confirmable that waits for its NSTART slot hangs off the session's delay queue WITHOUT a reference "
            "(delayed_send_takes_no_reference), gets exactly one when coap_session_connected hands the same node to coap_wait_ack "
            "(flush_takes_reference), and ANY reply that matches the outstanding Confirmable — empty ACK, ACK with a request code, "
            "ACK with an invalid code class, Reset — leaves the same state: node, PDU and reference released (any_reply_ends_exchange); "
            "all theorems above (ref = holders, reclaimed after the timeout, ledger empty after teardown) are proved over histories "
            "that contain these events.  M also covers CALL HOME: coap_session_set_type_client on a server datagram session takes exactly "
            "one reference for the application and leaves the session in its endpoint's table (call_home_takes_one_reference), idle "
            "accounting and timeout reclamation pass it by (client_session_survives_pass), coap_session_release frees nothing on a server "
            "session or while a reference is left (release_frees_only_unreferenced_client_sessions), and the release of the last reference "
            "of the client session frees it once, unlinks it from the table it lives in and raises no session-deleted event, so the peer's "
            "next datagram gets a fresh session (end_call_home_frees_and_unlinks, client_free_releases_and_unlinks; "
            "one_new_one_del_per_session: deleted + handed = new); the application may release its call-home reference at ANY time: while "
            "something else refers to the session nothing is freed (early_release_keeps_session, release_keeps_referenced_session), and the "
            "LAST holder of a client session — an observation, an async entry, a queued message, an application reference, released from the "
            "receive path, an I/O pass, an API call or the teardown — frees it once, leaves no holder pointing at it and raises no "
            "session-deleted event (last_release_frees_client_session; no_free_while_referenced and ref_eq_holders hold over these histories); "
            "the datagram receive path is transcribed from the fixed code (temporary reference around the dispatch); a Lean-verified monitor ledgerOk (ledgerOk_iff) judges the REAL allocation trace recorded through wrapped "
            "coap_malloc_type/free_type.  M is tied to the compiled code by exact trace equality (session->ref, last_rx_tx and the "
            "notifications each peer received, partial_read / partial_pdu / state NONE of stream sessions, after EVERY event) on generated "
            "histories from 1..50 datagram peers and 0..4 stream peers (TCP endpoint; connect, whole requests, requests cut anywhere in "
            "the header or body, EOF from the peer, disconnect by the application, each while the application / an async entry / a "
            "delayed response / an observation refers to the session) on a real server context with "
            "virtual clock and scripted network; the property is also read off the implementation's own output (among others: the "
            "reference counts of all live sessions add up to the number of subscriptions + queued messages + async entries + application "
            "references that exist; a session-deleted event outside teardown is either the eviction of the oldest idle session at the "
            "idle limit or comes from an I/O pass whose now is >= the session's last_rx_tx + session_timeout).",
    "note": "Partial: 'nothing used after release' and leaks of objects not allocated through coap_malloc_type are ASan/LSan observations on "
            "the histories run.  UDP and TCP endpoints in the differential runs (the three socket shims coap_socket_accept_tcp / "
            "coap_socket_read / coap_socket_write are interposed; no TLS/WebSocket/DTLS sessions: D9); the idle limit is judged on "
            "datagram endpoints only (D15: coap_new_server_session has no idle accounting); notifications are NON (both observable resources "
            "are NOTIFY_NON_ALWAYS), confirmable notifications are outside the generated alphabet (Confirmables are pings and separate responses of the application).  Trusted: Lean kernel (+ propext, Classical.choice, "
            "Quot.sound), harness + allocator wrap + oracle, the hand transcription M (checked on the histories run).",
    "design_ref": "DESIGN.md §4 C12, design/C12.md",
}
LEAN_MODULES = ["CoapVerif.Props.C12"]
NAMESPACE = "Coap.C12"
REQUIRED_THEOREMS = ["peer_session_functional_injective", "one_new_one_del_per_session", "ref_eq_holders",
                     "no_free_while_referenced", "reregistration_keeps_refcount", "rst_releases_exactly_one", "idle_reclaimed_after_timeout", "reclaimed_only_after_timeout",
                     "session_used_after_now_survives", "oldest_idle_evicted_at_limit",
                     "teardown_ledger_empty", "ledger_never_bad", "ledgerOk_iff", "same_peer_same_session",
                     "referenced_session_survives_pass", "open_session_reclaimed_only_after_timeout",
                     "partial_pdu_hangs_off_live_session", "reclaim_releases_partial_pdu", "teardown_state_empty",
                     "any_reply_ends_exchange", "delayed_send_takes_no_reference", "flush_takes_reference",
                     "call_home_takes_one_reference", "end_call_home_frees_and_unlinks", "client_free_releases_and_unlinks",
                     "release_frees_only_unreferenced_client_sessions", "client_session_survives_pass",
                     "last_release_frees_client_session", "release_keeps_referenced_session", "early_release_keeps_session",
                     "end_call_home_is_release",
                     "client_session_in_table_is_referenced", "client_invariant_step",
                     "unreferenced_session_is_server_session", "own_client_session_outside_peer_map"]
RULE = ("one line = one whole history on a fresh real server context with two UDP endpoints and one TCP endpoint: requests from 1..50 peers "
        "(peers P and P+25 share the remote address/port and differ in the local port only; groups share the remote IP or the "
        "remote port) and, in about a third of the histories, 1..4 stream peers (connect + CSM, whole requests / observe / async / "
        "delayed responses on the connection, a request sent in two parts cut at 1..26 of 27 bytes — inside the 3 byte header or "
        "after it, when session->partial_pdu exists — with time jumps, I/O passes, references, the rest of the message, EOF, an "
        "application disconnect or the context teardown in between; the peer closing the connection / the application disconnecting "
        "while the application, an async entry, a pending delayed response or an observation refers to the session, then releases, "
        "frees, I/O passes, reconnects), observe register/deregister on two observable resources with explicit token (3 variants) and query (2 "
        "variants: another cache key), including re-registration of the same resource/query under a NEW token and Observe:1 with "
        "a known / unknown token, 'resource changed' (coap_resource_notify_observers) with the NON notifications sent in the next "
        "I/O pass, peer RST / empty ACK for the k-th last notification it received on its session (fresh and stale ids), async "
        "registration/free, delayed (async) NON responses whose handler takes 0 ms .. twice the session timeout when libcoap re-invokes "
        "it from coap_check_async inside an I/O pass (the clock moves on during the pass), I/O passes given a `now` read 0 ms .. "
        "more than the session timeout earlier, server CON (ping) in the send queue answered by RST or retransmitted to exhaustion, "
        "separate Confirmable responses sent by the application (coap_send) one or several back to back — NSTART = 1: the later ones wait "
        "in session->delayqueue — while the application / an observation / an async entry refers to the session too, the peer ending "
        "each exchange with an empty ACK, an ACK with a request code, an ACK with an invalid code class, a Reset, or never "
        "(retransmissions to give-up), disconnect / teardown with Confirmables still delayed, then releases and time jumps across the session timeout, application "
        "reference/release, call home (coap_session_set_type_client on a peer's session after a request / observation / async entry, then more "
        "requests, notifications, references, time beyond the session timeout, idle-limit pressure, disconnect, the other holders letting go, "
        "coap_session_release of the call-home reference, the peer talking again, teardown with the call-home session alive), session disconnect, resource deletion (also while dirty), max_idle_sessions / session_timeout settings, virtual-time jumps on both sides of every timeout "
        "(retransmission deadlines, session_timeout-1/0/+1), I/O steps, in about a fifth of the histories 1..3 client sessions proper "
        "(coap_new_client_session on the SAME context + 0..2 coap_session_reference, kept by the application until coap_free_context: "
        "lifetime only, round R12d), context teardown at any point (always at the end); "
        "non-trivial = distinct history that created at least one session and has at least 4 events")
TRUSTED_BASE = ["Lean 4.33 kernel; axioms allowed: propext, Classical.choice, Quot.sound (audited per theorem each run)",
                "harness/sessions.c on sim_core.h (virtual clock, scripted datagram network; for stream peers the interposed socket shims "
                "coap_socket_accept_tcp / coap_socket_read / coap_socket_write: a connection is a socketpair end, bytes and EOF are scripted), the wrapped allocator "
                "(coap_malloc_type/realloc_type/free_type) that records the real allocation trace, harness/sessions_pipe.py, "
                "generators and the python oracle that reads the implementation's own output",
                "ASan/LSan as observers of the compiled C (use after release, leaks of objects not allocated through coap_malloc_type)",
                "M (CoapVerif/Model/Sessions.lean) is a hand transcription of the session bookkeeping; checked against the "
                "compiled code only on the histories run"]
ASSUMPTIONS = ["partial: 'nothing used after release' in the compiled C is ASan's observation on the histories run; the theorems are "
               "about M's reference/ledger bookkeeping and about the verified monitor ledgerOk, which judges the real allocation trace",
               "UDP and TCP endpoints in the differential runs (DTLS/TLS sessions need GnuTLS handshakes: C19; no WebSockets); SPEC DECISION D9; "
               "a stream peer reconnects only after the session of its previous connection is gone; stream messages are whole or cut once",
               "SPEC DECISION D15: 'the oldest idle one when the idle-session limit is reached' is coap_endpoint_get_session's rule "
               "(datagram endpoints); accepting a stream connection (coap_new_server_session) does no idle accounting and evicts nothing",
               "the application releases only references it holds (D14) and does not use session pointers after coap_free_context (D13)",
               "SPEC DECISION D16: call home on datagram sessions (the call-home reference may be released at any time since round R12c)",
               "SPEC DECISION D17: the application passes a CLIENT session's pointer to coap_session_disconnected only while it holds a reference on it",
               "compiled Lean definitions agree with the kernel's reading of them"]
SPEC_DECISIONS = ["D9 peer_session_functional_injective: UDP, and DTLS without connection-id re-keying",
                  "D13 'valid while the application refers to it' is scoped to the life of the context; everything-released has priority at teardown",
                  "D14 the application releases only references it holds",
                  "D16 call home: datagram sessions (release of the call-home reference at any time)",
                  "D17 coap_session_disconnected on a client session only while the application holds a reference on it",
                  "D15 the idle-session limit is enforced where sessions are created from datagrams (coap_endpoint_get_session); "
                  "accepting a stream connection neither counts nor evicts"]
RUN_KW = {"timeout": 900, "env": {"ASAN_OPTIONS": "detect_leaks=1:abort_on_error=0:exitcode=86:allocator_may_return_null=1"}}
WRAPS = SIM_WRAPS + ["coap_malloc_type", "coap_realloc_type", "coap_free_type",
                     "coap_socket_accept_tcp", "coap_socket_read", "coap_socket_write"]      # stream socket shims (harness/sessions.c)


def harness(ctx):
    bdir = C.build_libcoap()
    out = os.path.join(bdir, "h_sessions")
    core = os.path.join(C.VERIF, "harness", "sim_core.h")
    if os.path.exists(out) and os.path.getmtime(core) > os.path.getmtime(out):
        os.unlink(out)
    h = C.build_harness("sessions", bdir, wraps=WRAPS)
    return [sys.executable, os.path.join(C.VERIF, "harness", "sessions_pipe.py"), h, C.driver_path()]


# ------------------------------------------------------------------ generator
def gen_history(rng, big=False):
    npeers = rng.choice([1, 1, 2, 2, 3, 3, 4, 5, 6, 8, 12, 20, 35, 50] if not big else [20, 35, 50, 50])
    pool = []
    while len(pool) < npeers:
        r = rng.randrange(25)
        for p in ([r, r + 25] if rng.random() < 0.35 else [r + 25 * rng.randrange(2)]):
            if p not in pool and len(pool) < npeers:
                pool.append(p)
    # stream (CoAP over TCP) peers 50..57: in about a third of the histories, 1..4 of them next to the datagram peers
    if rng.random() < 0.36:
        ns = rng.choice([1, 1, 2, 2, 3, 4])
        pool += rng.sample(range(50, 58), ns)
        if rng.random() < 0.3:
            pool = [p for p in pool if p >= 50] + pool[: rng.randrange(3)]       # (almost) only stream peers
        rng.shuffle(pool)
    timeout = 300
    toks = []
    connected = set()
    if rng.random() < 0.6:
        timeout_set = rng.choice([1, 2, 3, 5, 10, 60, 300, 0]) if rng.random() < 0.93 else \
            rng.choice([4294967, 4294968, 4294969, 2 ** 32 - 1, 86400 * 365])     # seconds * ticks beyond 32 bits
        toks.append("s%d" % timeout_set)
        timeout = timeout_set or 300
    if rng.random() < 0.6:
        toks.append("m%d" % rng.choice([1, 1, 2, 2, 3, 4, 5, 8, 10, 0]))
    n = rng.choice([4, 8, 12, 20, 30, 45, 60, 80]) if not big else rng.choice([120, 200, 300])
    hot = pool[: max(1, len(pool) // 3)]

    def obs(kind, p, k=None, v=None, q=None):
        """observe register/deregister token: resource k, token variant v, query variant q (defaults are omitted)"""
        k = rng.randrange(2) if k is None else k
        v = (0 if rng.random() < 0.55 else rng.randrange(1, 3)) if v is None else v
        q = (0 if rng.random() < 0.8 else 1) if q is None else q
        return "%s%d.%d" % (kind, p, k) + (".%d.%d" % (v, q) if q else ".%d" % v if v else "")

    def dur():
        """time a handler takes (ms): nothing, a little, about a retransmission interval, around the session timeout"""
        t = timeout * 1000
        return rng.choice([0, 0, 1, 1, 2, 5, 40, 250, 1000, 2000, 2001, max(1, t - 1), t, t + 1, 2 * t])

    def stream_ev(p):
        """what a stream peer and the application do with its connection: connect, whole requests, a request in two parts
        (cut anywhere: inside the 3 byte header or after it) with time / I/O passes / the end of the connection / the end of
        the context in between, observe, async and delayed responses, application references, close by the peer or by the
        application while something still refers to the session, reconnect"""
        out = []
        if p not in connected or rng.random() < 0.06:
            out.append("n%d" % p); connected.add(p)
            if rng.random() < 0.1: return out
        c = rng.random()
        if c < 0.16: out.append("r%d" % p)
        elif c < 0.26: out.append(obs("o", p))
        elif c < 0.29: out.append(obs("d", p))
        elif c < 0.36: out.append("a%d" % p)
        elif c < 0.39: out.append("f%d" % p)
        elif c < 0.46:
            d = rng.choice([0, 1, 5, 40, 1000, timeout * 1000])
            out.append("b%d.%d.%d" % (p, d, dur()))
            if d and rng.random() < 0.6:
                if rng.random() < 0.4: out.append("z%d" % p)
                out += ["T%d" % rng.choice([d, d + 1, max(1, d - 1)]), rng.choice(["i", "i", "I1", "r%d" % rng.choice(pool)])]
        elif c < 0.56: out.append("+%d" % p)
        elif c < 0.63: out.append("-%d" % p)
        elif c < 0.78:
            # a message in two parts
            out.append("p%d.%d" % (p, rng.choice([1, 2, 3, 3, 4, 5, 13, 20, 25, 26, rng.randrange(1, 27)])))
            t = timeout * 1000
            for _ in range(rng.choice([0, 0, 1, 1, 2, 3])):
                out.append(rng.choice(["i", "i", "T1", "T1000", "T%d" % max(1, t - 1), "T%d" % t, "T%d" % (t + 1), "+%d" % p, "-%d" % p,
                                       "r%d" % p, "r%d" % rng.choice(pool), "a%d" % rng.choice(pool), "c0", "I5", "p%d.3" % p]))
            r = rng.random()
            if r < 0.45: out.append("e%d" % p)
            elif r < 0.65: out.append("z%d" % p)
            elif r < 0.75: out.append("x%d" % p)
            elif r < 0.83: out.append("F")
        elif c < 0.80: out.append("e%d" % p)
        elif c < 0.93:
            # the connection goes away, possibly while the application / an async entry / an observation refers to the session
            if rng.random() < 0.6:
                out.append(rng.choice(["+%d", "+%d", "a%d", "b%d.0.1", "b%d.2000.1", "o%d.0", "o%d.1"]) % p)
            out.append("%s%d" % ("z" if rng.random() < 0.75 else "x", p))
            for _ in range(rng.choice([0, 1, 1, 2, 3])):
                out.append(rng.choice(["i", "i", "T1", "T2000", "T%d" % (timeout * 1000), "-%d" % p, "-%d" % p, "f%d" % p, "n%d" % p, "r%d" % p,
                                       "z%d" % p, "x%d" % p, "+%d" % p, "r%d" % rng.choice(pool), "I3"]))
        else: out.append("x%d" % p)
        return out

    dpool = [q for q in pool if q < 50] or [rng.randrange(50)]
    base = len(toks)
    while len(toks) - base < n:
        p = rng.choice(hot) if rng.random() < 0.5 else rng.choice(pool)
        if p >= 50 and rng.random() < 0.85:
            toks += stream_ev(p)
            if toks[-1] == "F": break
            continue
        if p >= 50: p = rng.choice(dpool)
        c0 = rng.random()
        if c0 < 0.035:
            # a delayed response: the request is parked (async entry with a delay), the delay passes, an I/O pass (an
            # explicit one or the one that ends any datagram event) re-invokes the handler, which takes some time
            d = rng.choice([0, 1, 1, 2, 5, 40, 40, 100, 999, 1000, 2000, 4000, timeout * 1000])
            toks.append("b%d.%d.%d" % (p, d, dur()))
            r = rng.random()
            if r < 0.75 and d:
                if rng.random() < 0.3: toks.append(rng.choice(["r%d", "b%d.7.3", "+%d", "q%d", "o%d.0"]) % rng.choice(dpool))
                toks.append("T%d" % rng.choice([d, d, d + 1, d + 1000, max(1, d - 1), 2 * d]))
                toks.append(rng.choice(["i", "i", "i", "I1", "r%d" % rng.choice(pool), "r%d" % p, "b%d.1.1" % rng.choice(pool)]))
                if rng.random() < 0.5: toks.append(rng.choice(["i", "r%d" % p, "T1", "T%d" % (timeout * 1000), "I2"]))
            continue
        if c0 < 0.10:
            # Confirmables of the application on the peer's session: one, or several back to back (NSTART = 1: the later
            # ones wait in the session's delay queue without a reference), while the application / an observation / an
            # async entry may refer to the session as well; the peer ends the exchanges with an empty ACK, a BAD ACK
            # (request code, invalid code class), a Reset — or not at all (retransmissions, give-up) —, the application
            # disconnects or frees the context in between; then the other holders let go and time passes
            if rng.random() < 0.5: toks.append(rng.choice(["r%d", "r%d", "o%d.0", "a%d"]) % p)
            if rng.random() < 0.45: toks.append(rng.choice(["+%d", "+%d", "o%d.1", "a%d"]) % p)
            for _ in range(rng.choice([1, 1, 2, 2, 2, 3, 4])):
                toks.append(rng.choice(["u%d", "u%d", "u%d", "u%d", "q%d"]) % p)
                if rng.random() < 0.12: toks.append(rng.choice(["T1", "T1999", "T2000", "i", "r%d" % p]))
            t = timeout * 1000
            for _ in range(rng.choice([0, 1, 1, 2, 2, 3, 4])):
                r = rng.random()
                if r < 0.55: toks.append("g%d.%d" % (p, rng.choice([0, 0, 1, 1, 2])))
                elif r < 0.68: toks.append("k%d" % p)
                elif r < 0.76: toks += ["T%d" % rng.choice([2000, 4000, 8000, 16000, 32000, 62000]), "i"]
                elif r < 0.82: toks.append("x%d" % p)
                elif r < 0.88: toks.append("u%d" % p)
                elif r < 0.92: toks.append("g%d.%d" % (rng.choice(dpool), rng.randrange(3)))
                elif r < 0.95: toks.append(rng.choice(["i", "I1", "r%d" % p]))
                else: toks.append(rng.choice(["-%d", "f%d", "d%d.1"]) % p)
            if rng.random() < 0.7:
                toks += [x % p for x in rng.sample(["-%d", "-%d", "f%d", "d%d.1", "d%d.0"], rng.randrange(1, 5))]
            if rng.random() < 0.75:
                toks += ["T%d" % rng.choice([t, t + 1, max(1, t - 1), 2 * t, 62000, 300000]), "i"]
                if rng.random() < 0.4: toks.append(rng.choice(["r%d" % p, "o%d.0" % p, "c0", "i", "+%d" % p, "u%d" % p]))
            continue
        if c0 < 0.155:
            # call home: the application takes the peer's server session over as a client session
            # (coap_session_set_type_client: one reference for the application, the session stays in its endpoint's table),
            # things go on on it — requests, observations, async entries, application references, notifications, time far
            # beyond the session timeout, idle-limit pressure from other peers, a disconnect —, the other holders let go,
            # and the application ends it (coap_session_release: reference count 0 on a CLIENT session frees it at once);
            # then the peer talks again (a FRESH session), passes run, the context is freed
            t = timeout * 1000
            toks.append(rng.choice(["r%d", "r%d", "o%d.0", "a%d", "o%d.1.1"]) % p)
            if rng.random() < 0.3: toks.append(rng.choice(["+%d", "o%d.1", "a%d", "q%d", "b%d.40.1"]) % p)
            toks.append("h%d" % p)
            for _ in range(rng.choice([0, 0, 1, 1, 2, 3, 4])):
                r = rng.random()
                if r < 0.30: toks.append(rng.choice(["r%d", "r%d", "o%d.0", "d%d.0", "a%d", "f%d", "+%d", "-%d", "h%d", "q%d", "u%d", "x%d", "j%d", "b%d.1.1"]) % p)
                elif r < 0.45: toks += ["T%d" % rng.choice([1, 2000, t - 1 if t > 1 else 1, t, t + 1, 2 * t]), rng.choice(["i", "i", "I1", "r%d" % rng.choice(dpool)])]
                elif r < 0.60: toks += ["c%d" % rng.randrange(2), "i"]
                elif r < 0.80: toks.append("r%d" % rng.choice(dpool))
                elif r < 0.90: toks.append(rng.choice(["m1", "m2", "i", "I5"]))
                else: toks.append("%s%d.0" % (rng.choice("ty"), p))
            if rng.random() < 0.85:
                toks += [x % p for x in rng.sample(["-%d", "-%d", "f%d", "d%d.0", "d%d.1", "d%d.1.1", "x%d", "k%d"], rng.randrange(0, 5))]
                if rng.random() < 0.3: toks += ["T%d" % rng.choice([1, 40, t, 62000]), "i"]
                toks.append("j%d" % p)
                for _ in range(rng.choice([0, 1, 1, 2, 3])):
                    toks.append(rng.choice(["r%d" % p, "r%d" % p, "o%d.0" % p, "i", "T%d" % t, "i", "j%d" % p, "h%d" % p, "+%d" % p,
                                            "r%d" % rng.choice(dpool), "c0", "F"]))
                    if toks[-1] == "F": break
                if toks[-1] == "F": break
            continue
        if c0 < 0.195:
            # D16 lifted (round R12c): the application takes the session over while an observation / an async entry / a
            # deferred response / a queued Confirmable / a reference of its own refers to it, releases the call-home
            # reference EARLY, and the other holders go one by one — the last one frees the client session from inside
            # the receive path (Observe deregistration, re-registration under a new token, RST of a notification, ACK / bad
            # ACK / RST of the queued CON), from an I/O pass (the deferred response is sent, the CON is given up), from
            # coap_free_async / coap_session_release / coap_delete_resource, or from coap_free_context; then the peer
            # talks again (a FRESH session)
            t = timeout * 1000
            hs = rng.sample(["o0", "o1", "a", "b", "q", "+", "oq"], rng.choice([1, 1, 1, 2, 2, 3, 4]))
            if rng.random() < 0.3: toks.append("r%d" % p)
            pre = ["h%d" % p] if rng.random() < 0.25 else []       # take over first, holders afterwards
            toks += pre
            for x in hs:
                toks.append({"o0": "o%d.0" % p, "o1": "o%d.1" % p, "oq": "o%d.0.0.1" % p, "a": "a%d" % p,
                             "b": "b%d.%d.%d" % (p, rng.choice([1, 40, 40, 2000]), rng.choice([0, 1, 5, 2000])), "q": "q%d" % p,
                             "+": "+%d" % p}[x])
                if x == "q" and rng.random() < 0.3 and not pre: toks.append("u%d" % p)
            if not pre: toks.append("h%d" % p)
            if rng.random() < 0.35 and any(x.startswith("o") for x in hs): toks += ["c%d" % rng.randrange(2), "i"]
            if rng.random() < 0.9: toks.append("j%d" % p)
            rel = []
            for x in hs:
                if x in ("o0", "o1", "oq"):
                    k = 1 if x == "o1" else 0
                    qq = ".0.1" if x == "oq" else ""
                    r = rng.random()
                    if r < 0.4: rel.append(["d%d.%d%s" % (p, k, qq)])
                    elif r < 0.6: rel.append(["c%d" % k, "i", "t%d.0" % p])
                    elif r < 0.7: rel.append(["o%d.%d%s" % (p, k, ".1" + qq[2:] if qq else ".1"), "d%d.%d%s" % (p, k, ".1" + qq[2:] if qq else ".1")])
                    elif r < 0.8: rel.append(["D%d" % k])
                    elif r < 0.9: rel.append(["d%d.%d.2%s" % (p, k, qq[2:])])       # unknown token: by cache key
                    else: rel.append(["t%d.%d" % (p, rng.randrange(3))])
                elif x == "a": rel.append(["f%d" % p] if rng.random() < 0.85 else [])
                elif x == "b": rel.append(["T%d" % rng.choice([1, 40, 2000, 2001]), rng.choice(["i", "i", "r%d" % rng.choice(dpool), "I1"])])
                elif x == "q":
                    r = rng.random()
                    if r < 0.5: rel.append(["g%d.%d" % (p, rng.randrange(3))] * rng.choice([1, 1, 2]))
                    elif r < 0.75: rel.append(["k%d" % p] * rng.choice([1, 2]))
                    else: rel.append(["T2000", "i", "T4000", "i", "T8000", "i", "T16000", "i", "T32000", "i"])
                elif x == "+": rel.append(["-%d" % p])
            rng.shuffle(rel)
            for r in rel:
                toks += r
                if rng.random() < 0.15: toks.append(rng.choice(["i", "r%d" % p, "T%d" % t, "j%d" % p, "x%d" % p, "+%d" % p, "m1", "r%d" % rng.choice(dpool)]))
            if rng.random() < 0.3: toks.append("j%d" % p)
            for _ in range(rng.choice([0, 1, 1, 2])):
                toks.append(rng.choice(["r%d" % p, "o%d.0" % p, "i", "T%d" % t, "h%d" % p, "-%d" % p, "F"]))
                if toks[-1] == "F": break
            if toks[-1] == "F": break
            continue
        if c0 < 0.215:
            # an I/O pass whose `now` the application read a little earlier (before the last datagrams were handled)
            x = rng.choice([1, 2, 5, 100, 1000, 2000, timeout * 1000, timeout * 1000 + 1])
            if rng.random() < 0.7:
                toks.append("T%d" % x)
                toks.append(rng.choice(["r%d", "r%d", "o%d.0", "a%d", "q%d"]) % p)
            toks.append("I%d" % rng.choice([0, 1, x, x, max(1, x - 1), x + 1, 2 * x, 9999999]))
            continue
        c = rng.random()
        if c < 0.19: toks.append("r%d" % p)
        elif c < 0.28: toks.append(obs("o", p))
        elif c < 0.31: toks.append(obs("d", p))
        elif c < 0.335:
            # the same resource and query under two different tokens (token replacement in coap_add_observer)
            k, q, v = rng.randrange(2), int(rng.random() < 0.2), rng.randrange(3)
            toks += [obs("o", p, k, v, q), obs("o", p, k, (v + 1 + rng.randrange(2)) % 3, q)]
        elif c < 0.385:
            # resource changed, notifications go out, a peer resets / acknowledges one
            toks.append("c%d" % rng.randrange(2))
            if rng.random() < 0.7: toks.append("i")
            if rng.random() < 0.6: toks.append("%s%d.%d" % ("t" if rng.random() < 0.85 else "y", p, 0 if rng.random() < 0.7 else rng.randrange(4)))
        elif c < 0.41: toks.append("%s%d.%d" % ("t" if rng.random() < 0.8 else "y", p, 0 if rng.random() < 0.6 else rng.randrange(4)))
        elif c < 0.45: toks.append("a%d" % p)
        elif c < 0.475: toks.append("f%d" % p)
        elif c < 0.515: toks.append("q%d" % p)
        elif c < 0.535: toks.append("u%d" % p)
        elif c < 0.555: toks.append("k%d" % p)
        elif c < 0.57: toks.append("g%d.%d" % (p, rng.randrange(3)))
        elif c < 0.63: toks.append("+%d" % p)
        elif c < 0.685: toks.append("-%d" % p)
        elif c < 0.705: toks.append("x%d" % p)
        elif c < 0.715: toks.append(rng.choice(["h%d", "j%d"]) % p)
        elif c < 0.725: toks.append("D%d" % rng.randrange(2))
        elif c < 0.86:
            t = timeout * 1000
            toks.append("T%d" % rng.choice([1, 7, 100, 999, 1000, 1999, 2000, 2001, 3999, 4000, 8000, 16000, 32000, 62000,
                                            max(1, t - 1), t, t + 1, 2 * t, max(1, t - 2000), t // 2 + 1]))
        elif c < 0.96: toks.append("i")
        elif c < 0.975:
            timeout_set = rng.choice([1, 2, 5, 60, 0]) if rng.random() < 0.93 else rng.choice([4294967, 4294968, 2 ** 32 - 1])
            toks.append("s%d" % timeout_set)
            timeout = timeout_set or 300
        elif c < 0.99: toks.append("m%d" % rng.choice([0, 1, 2, 3, 5]))
        else:
            toks.append("F")
            break
    # round R12d: in about a fifth of the histories the application also opens 1..3 client sessions on the SAME context
    # (coap_new_client_session, K extra references each) anywhere in the history and keeps them until coap_free_context
    if rng.random() < 0.2:
        for _ in range(rng.choice([1, 1, 2, 3])):
            stop = toks.index("F") if "F" in toks else len(toks)
            toks.insert(rng.randrange(stop + 1), "w%d" % rng.choice([0, 0, 1, 1, 2]))
    return "sess " + " ".join(toks)


def generate(ctx, escalate=False):
    rng = ctx.rng
    n = 50000 if ctx.thorough() else 3000
    if escalate:
        n *= 2
    return [gen_history(rng, big=(rng.random() < (0.03 if ctx.thorough() else 0.01))) for _ in range(n)]


# ------------------------------------------------------------------ reading a canonical line
def split_line(s):
    """-> (segments [(token, outcome, events [str], refs {idx: (ref, last)} | None, idle (i0, i1, i2), live (s, o, n, a, app), clock)], fields {ledger, lsan})"""
    parts = s.split(" | ")
    fields = {}
    for p in parts[1:]:
        k, _, v = p.partition("=")
        fields[k.strip()] = v.strip()
    segs = []
    for seg in parts[0].split(" ; "):
        w = seg.split()
        if len(w) != 7 or not w[6].startswith("C"):
            raise ValueError("bad segment %r" % seg)
        tok, outcome, E, R, I, L, Ck = w
        evs = [] if E == "E-" else E[1:].split(",")
        refs = None
        dq = {}          # idx -> length of the session's delay queue (Confirmables waiting for their NSTART slot)
        cl = set()       # sessions whose type is CLIENT (taken over with coap_session_set_type_client)
        if R != "R-":
            refs = {}
            for r in R[1:].split(","):
                i, _, rest = r.partition("=")
                a, _, b = rest.partition("@")
                refs[i] = (int(a), int(b.partition("#")[0]))
                m = re.search(r"\^(\d+)", b)
                if m: dq[i] = int(m.group(1))
                if b.endswith("c"): cl.add(i)
        idle = tuple(int(x) for x in I[1:].split("/"))
        if len(idle) != 3:
            raise ValueError("bad idle counts %r" % I)
        segs.append((tok, outcome, evs, refs if refs is not None else {}, idle, tuple(int(x) for x in L[1:].split("/")),
                     int(Ck[1:]), dq, cl))
    return segs, fields


def peer_of(tok):
    body = tok[1:].split(".")[0]
    return int(body)


def oracle(inp, impl):
    """The property, read off the implementation's own output (no model involved).  Returns a reason or None."""
    try:
        segs, fields = split_line(impl)
    except Exception as e:
        return "unreadable harness output (%s): %s" % (e, impl[:200])
    toks = inp.split()[1:]
    led = fields.get("ledger", "")
    if not led.startswith("true"):
        return "the real allocation trace is rejected by the verified monitor ledgerOk: %s" % led
    if fields.get("lsan", "0") != "0":
        return "LeakSanitizer reports a leak after the context was freed"
    now, timeout, max_idle = 1000, 300, 0
    live = {}            # idx -> peer
    owner = {}           # peer -> idx   (live sessions)
    seen_new, seen_del = set(), set()
    prev_refs, prev_live = {}, {}
    active = {}          # idx -> arrival time of the last datagram the harness saw this session handle (a lower bound of last_rx_tx
                         # that does not depend on what the implementation wrote there)
    closed = set()       # sessions of stream peers whose connection is gone (the peer closed it: `z`; the application: `x`) —
                         # known from the INPUT and the session-new events alone
    nxt = 0
    prev_dq = {}
    homed = set()        # sessions the application has taken over with coap_session_set_type_client (`h` not skipped) and whose
                         # call-home reference it still holds
    taken = set()        # live sessions that have been taken over (type CLIENT from then on, whoever still refers to them)
    seen_handed = set()  # sessions that were freed as CLIENT sessions: no session-deleted event is due
    prev_lv0 = 0
    for k, (tok, outcome, evs, refs, idle, lv, clock, dq, cl) in enumerate(segs):
        c = tok[0]
        final = c == "F"
        if c == "w" and outcome == "ok":
            # round R12d: coap_new_client_session on the same context: ONE new session object per call (also to the same peer),
            # no session-new / session-deleted event, never in an endpoint's table (the rows of the tables are unchanged)
            if evs:
                return "coap_new_client_session raised server-session events %s (event %d, %s)" % (evs, k, tok)
            if lv[0] != prev_lv0 + 1:
                return "coap_new_client_session: %d session objects allocated before, %d after (event %d, %s)" % (prev_lv0, lv[0], k, tok)
            if refs != prev_refs or idle != (segs[k - 1][4] if k else (0, 0, 0)):
                return "coap_new_client_session changed the endpoints' session tables (event %d, %s)" % (k, tok)
        prev_lv0 = lv[0]
        if c == "T": now += int(tok[1:])
        elif c == "s": timeout = int(tok[1:]) or 300
        elif c == "m": max_idle = int(tok[1:])
        # `now` = the clock when the event starts = the `now` argument of the I/O pass the event runs (no handler takes time
        # before the pass of a datagram event starts); `I<d>` hands the pass an older one.  Inside the pass the clock may move on
        # (the handler of a delayed response takes time): the harness prints the clock after every event
        pass_now = max(0, now - int(tok[1:])) if c == "I" else now
        # nothing used after release: a table that still links a freed session object (seen through the wrapped allocator —
        # the harness has not read the freed object) will be used by the next lookup / walk / teardown of that endpoint
        for i in refs:
            if i.startswith("!dangling"):
                return ("the session table of endpoint %s still links a session object that has been freed (event %d, %s): "
                        "the next datagram lookup, I/O pass or coap_free_context on that endpoint uses / frees it again" % (
                            i[len("!dangling"):], k, tok))
        hp = peer_of(tok) if c in "hj" else None
        h_idx = owner.get(hp) if hp is not None else None       # the peer's session when the event starts
        j_want = h_idx is not None and h_idx in homed          # at ANY time the application holds the reference (D16 lifted)
        if c == "j" and j_want and outcome == "ok":
            homed.discard(h_idx)                                # released before anything else happens in the event
        runs_pass = c in "irodaktgybInpez" and not outcome.startswith("skip")
        creator = peer_of(tok) if c in "rodaktgybnpez" else None
        stream = creator is not None and creator >= 50
        # the connection of a stream peer ends: from now on its session may be reclaimed as soon as nothing refers to it
        if c in "zx" and not outcome.startswith("skip") and peer_of(tok) >= 50 and peer_of(tok) in owner:
            closed.add(owner[peer_of(tok)])
        # events: exactly one NEW and one DEL per session, in a sensible order
        dels_here = []
        # the datagram is handled before the I/O pass that ends the event: the peer's session AT THAT MOMENT is the one after
        # the creation (if the event creates one), else the one before any deletion by the pass
        owner_then = None if any(e.startswith("N") for e in evs) else dict(owner)
        for e in evs:
            kind, idx = e[0], e[1:]
            if idx.endswith("!appref"):
                idx = idx[: -len("!appref")]
                if not final:
                    return "session %s deleted (event %d, %s) while the application holds a reference on it" % (idx.replace("!ref", ""), k, tok)
            if idx.endswith("!ref"):
                idx = idx[: -len("!ref")]
                return "session %s got its session-deleted event (event %d, %s) while its reference count was not 0" % (idx, k, tok)
            if kind == "N":
                if idx in seen_new or idx != str(nxt):
                    return "session-new event for %s is not the first for a fresh session (event %d, %s)" % (idx, k, tok)
                seen_new.add(idx); nxt += 1
                if creator is None:
                    return "session %s created by an event that carries no datagram (%s)" % (idx, tok)
                if stream != (c == "n"):
                    return "session %s created by `%s`: a stream peer's session is created by its connection and only by it (event %d)" % (idx, tok, k)
                if creator in owner:
                    return "peer %d already has the live session %s but session %s was created for it (event %d, %s)" % (
                        creator, owner[creator], idx, k, tok)
                owner[creator] = idx; live[idx] = creator
                if owner_then is None: owner_then = dict(owner)
            elif kind == "X":
                # the session object was freed without a session-deleted event: only the release of the LAST reference of
                # a session the application had turned into a client session does that — the application's own
                # coap_session_release (`j`, `-`), or, once the application has let go, whichever holder goes last
                # (observation, async entry, queued message: from the receive path, an I/O pass, coap_free_async, …)
                appheld = idx.endswith("!appref")
                if appheld: idx = idx[: -len("!appref")]
                if idx not in live or idx in seen_del or idx in seen_handed:
                    return "session object %s freed (event %d, %s) although it is not a live session" % (idx, k, tok)
                if idx not in taken:
                    return ("session %s freed without a session-deleted event although the application never turned it into a "
                            "client session (event %d, %s)" % (idx, k, tok))
                if not final and (appheld or idx in homed):
                    return ("client session %s freed (event %d, %s) while the application still holds a reference on it" % (idx, k, tok))
                if c == "j" and outcome == "ok" and idx == h_idx and prev_refs.get(idx, (None, 0))[0] != 1:
                    return "client session %s freed by coap_session_release while its reference count was %s (event %d, %s)" % (
                        idx, prev_refs.get(idx, (None, 0))[0], k, tok)
                if c in "T" or c in "sm" or c == "c" or c == "h" or c == "+" or c == "w":
                    return "client session %s freed by an event that releases nothing (event %d, %s)" % (idx, k, tok)
                seen_handed.add(idx); homed.discard(idx); taken.discard(idx)
                pp = live.pop(idx)
                if owner.get(pp) == idx: del owner[pp]
            elif kind == "D":
                if idx == "?" or idx not in seen_new or idx in seen_del or idx in seen_handed:
                    return "session-deleted event for %s without exactly one earlier session-new (event %d, %s)" % (idx, k, tok)
                seen_del.add(idx); dels_here.append(idx); homed.discard(idx); taken.discard(idx)
                p = live.pop(idx)
                if owner.get(p) == idx: del owner[p]
        # datagrams: same peer -> same live session, different peers -> different sessions
        if outcome.startswith("h"):
            h = outcome[1:]
            if creator is None or h == "?":
                return "datagram handled by an unknown session (event %d, %s)" % (k, tok)
            if (owner_then or {}).get(creator) != h:
                return "datagram from peer %d handled by session %s, its session is %s (event %d, %s)" % (
                    creator, h, (owner_then or {}).get(creator), k, tok)
        # the live table is what the events say
        if not final and set(refs) != set(live):
            return "live sessions %s do not match the session-new/deleted events %s (event %d, %s)" % (
                sorted(refs), sorted(live), k, tok)
        # call home: coap_session_set_type_client succeeds exactly on a server session (then the session is a CLIENT session from
        # now on and stays in the table); the release of its last reference frees it and takes it out of the table
        if c == "h":
            want = h_idx is not None and h_idx not in taken
            if (outcome == "ok") != want:
                return "coap_session_set_type_client on peer %d's session %s: outcome %s (event %d, %s)" % (hp, h_idx, outcome, k, tok)
            if want: homed.add(h_idx); taken.add(h_idx)
        if c == "j":
            want = j_want
            if (outcome == "ok") != want:
                return "release of the call-home reference on peer %d's session %s: outcome %s (event %d, %s)" % (hp, h_idx, outcome, k, tok)
            if want and prev_refs.get(h_idx, (None, 0))[0] == 1 and "X" + h_idx not in evs:
                return ("the application released the last reference of client session %s but the session object was not freed "
                        "(event %d, %s)" % (h_idx, k, tok))
        if not final and {i for i in refs if i in cl} != taken:
            return "sessions of type CLIENT %s, sessions the application has taken over %s (event %d, %s)" % (
                sorted(cl), sorted(taken), k, tok)
        # a client session is freed by the release of its last reference: none with reference count 0 is left in a table
        if not final:
            for i in cl:
                if i in refs and refs[i][0] == 0:
                    return "client session %s has reference count 0 but was not freed (event %d, %s)" % (i, k, tok)
        # references = holders, on the implementation's own numbers: every holder in this alphabet is a subscription, a
        # queued message, an async entry or a reference the application took, and each holds exactly one reference
        # (a coap_queue_t that waits in a session's delay queue is not a queued message yet: it holds no reference)
        ndelayed = sum(dq.values())
        if not final and sum(r for r, _ in refs.values()) != sum(lv[1:]) - ndelayed:
            return ("the reference counts of the live sessions add up to %d but %d subscriptions + %d queued messages + %d async "
                    "entries + %d application references = %d holders exist (event %d, %s)" % (
                        sum(r for r, _ in refs.values()), lv[1], lv[2] - ndelayed, lv[3], lv[4], sum(lv[1:]) - ndelayed, k, tok))
        # eviction at the idle limit: the oldest idle session of that endpoint goes
        evicted = []
        # (SPEC DECISION D15: the idle limit is that of coap_endpoint_get_session, i.e. of datagram endpoints)
        if creator is not None and not stream and any(e.startswith("N") for e in evs):
            ep = creator // 25
            idle_before = [(i, prev_refs[i][1]) for i in prev_refs if prev_refs[i][0] == 0 and not prev_dq.get(i) and prev_live.get(i, -1) // 25 == ep]
            pre = evs[: next(j for j, e in enumerate(evs) if e.startswith("N"))]        # deletions BEFORE the creation
            victims = [strip_marks(e[1:]) for e in pre if e.startswith("D")]
            if max_idle > 0 and len(idle_before) >= max_idle:
                oldest = min(l for _, l in idle_before)
                if len(victims) != 1 or prev_refs[victims[0]][0] != 0 or prev_refs[victims[0]][1] != oldest or \
                        prev_live.get(victims[0], -1) // 25 != ep:
                    return "idle limit %d reached (%d idle) but the oldest idle session was not the one evicted: deleted %s (event %d, %s)" % (
                        max_idle, len(idle_before), victims, k, tok)
            elif victims:
                return "session(s) %s deleted to make room for a new one although the idle limit (%d) was not reached (%d idle) (event %d, %s)" % (
                    victims, max_idle, len(idle_before), k, tok)
            evicted = victims
        if outcome.startswith("h"):
            active[outcome[1:]] = now
        # reclamation ONLY after the session timeout: apart from the eviction above and the teardown, a session is deleted
        # only by the idle reclamation of an I/O pass, and only if `last_rx_tx + session_timeout <= now` for the `now` the pass
        # was given.  last_rx_tx never decreases, so the value printed BEFORE the event is a lower bound of the one tested, and so
        # is the arrival time of the last datagram the session handled (also the one of this very event).
        if not final:
            for idx in dels_here:
                if idx in evicted:
                    continue
                if not runs_pass:
                    return "session %s deleted by an event that neither evicts, nor runs an I/O pass, nor frees the context (event %d, %s)" % (idx, k, tok)
                if idx not in prev_refs:
                    return "session %s created and deleted by the same event (event %d, %s)" % (idx, k, tok)
                last = max(prev_refs[idx][1], active.get(idx, 0))
                if idx in closed:
                    continue        # a stream session whose connection is gone (that it was unreferenced: `!ref` above)
                # `n` = accept + the peer's CSM: two read events, each ends with a pass; a handler in the first pass may take
                # time, so the second pass's `now` lies between the clock before and after the event
                del_now = clock if c == "n" else pass_now
                if last + timeout * 1000 > del_now:
                    return ("session %s reclaimed before its session timeout: last_rx_tx >= %d, timeout %ds, but the I/O pass ran with now = %d "
                            "(clock afterwards %d) (event %d, %s)" % (idx, last, timeout, del_now, clock, k, tok))
        # reclamation: after an I/O pass no unreferenced session is older than the timeout
        if runs_pass:
            for i, (ref, last) in refs.items():
                if ref == 0 and not dq.get(i) and last + timeout * 1000 <= pass_now:
                    return "session %s idle since %d still alive after an I/O pass with now = %d (timeout %ds) (event %d, %s)" % (
                        i, last, pass_now, timeout, k, tok)
        # the clock never runs backwards, and only a pass (a handler inside it) or `T` moves it
        if clock < now or (clock != now and not runs_pass):
            return "virtual clock %d after the event, %d before (event %d, %s)" % (clock, now, k, tok)
        now = clock
        if final:
            if seen_new != seen_del | seen_handed:
                return "after coap_free_context sessions %s never got a session-deleted event" % sorted(seen_new - seen_del - seen_handed)
            if lv[:3] != (0, 0, 0):
                return "after coap_free_context %d sessions / %d subscriptions / %d queue nodes are still allocated" % lv[:3]
        prev_refs = refs
        prev_dq = dq
        prev_live = dict(live)
    if not segs or segs[-1][0][0] != "F":
        return "history did not end with the context being freed"
    return None


def canon_final(line):
    """One event can release holders of several sessions: coap_free_context (observations per resource, newest subscriber
    first; queued messages in send-queue order; async entries newest first), coap_delete_resource (subscribers newest
    first), an I/O pass (async entries newest first, then the send queue in deadline order).  M releases each class in
    creation order.  The ORDER in which client sessions that lose their last holder within ONE event are freed is not
    part of the property: every run of consecutive `X<idx>` events of a segment is compared as a set."""
    out = []
    for seg in line.split(" ; "):
        w = seg.split()
        if len(w) == 7 and w[2].count("X") > 1:
            evs, res, run = w[2][1:].split(","), [], []
            for e in evs + [None]:
                if e is not None and e.startswith("X"):
                    run.append(e)
                else:
                    res += sorted(run, key=lambda x: (len(x), x)); run = []
                    if e is not None: res.append(e)
            w[2] = "E" + ",".join(res)
            seg = " ".join(w)
        out.append(seg)
    return " ; ".join(out)


def strip_marks(s):
    return s.replace("!appref", "").replace("!ref", "")


def judge(ctx, c):
    i, m = c["impl"], c["model"]
    if i is None or i.startswith("crash"):
        return ("spec", "the real code aborted on this history (sanitizer report / crash): %s" % i)
    if i == "bad-op" or m == "bad-op":
        return None if i == m else ("tie", "bad-op on one side only: impl %s model %s" % (i[:40], (m or "")[:40]))
    why = oracle(c["input"], i)
    if why:
        return ("spec", why)
    ie = canon_final(strip_marks(i.split(" | ")[0]))
    mparts = (m or "").split(" | ")
    mparts[0] = canon_final(mparts[0])
    if len(mparts) < 2 or mparts[1] != "ledger=ok":
        return ("tie", "model M's own ledger is not clean: %s" % (m or "")[-80:])
    if ie != mparts[0]:
        a, b = ie.split(" ; "), mparts[0].split(" ; ")
        for k in range(max(len(a), len(b))):
            x = a[k] if k < len(a) else "<nothing>"
            y = b[k] if k < len(b) else "<nothing>"
            if x != y:
                why = ref_vs_holders(x, y)
                if why:
                    return ("spec", "event %d (%s): %s" % (k, x.split()[0], why))
                return ("tie", "event %d: implementation `%s` but model M `%s`" % (k, x[:200], y[:200]))
    return None


def ref_vs_holders(iseg, mseg):
    """S says refs s = #holders s.  M's printed reference counts are certified equal to the holder counts (theorem
    ref_eq_holders, and the driver marks any difference), so if the two segments agree on everything except the
    reference count of some session, the implementation's count contradicts the number of holders."""
    try:
        (a,), _ = split_line(iseg)
        (b,), _ = split_line(mseg)
    except Exception:
        return None
    if "!holds" in mseg or "!dq" in mseg or a[:3] != b[:3] or set(a[3]) != set(b[3]) or a[7] != b[7] or a[8] != b[8]:
        return None
    if any(a[3][i][1] != b[3][i][1] for i in a[3]):
        return None
    bad = [(i, a[3][i][0], b[3][i][0]) for i in sorted(a[3], key=int) if a[3][i][0] != b[3][i][0]]
    if not bad:
        return None
    i, ri, rm = bad[0]
    return "session %s has reference count %d but %d holders (application references, observers, async entries, queued messages)" % (i, ri, rm)


def nontrivial(c):
    i = c["impl"] or ""
    return len(c["input"].split()) >= 5 and "EN0" in i


def classify(c):
    n = len(c["input"].split()) - 1
    peers = {t[1:].split(".")[0] for t in c["input"].split()[1:] if t[0] in "rodafqkug+-xtybnpezhj"}
    return "ev<=%d peers<=%d" % (next(b for b in (8, 20, 45, 80, 10 ** 6) if n <= b), next(b for b in (1, 3, 8, 20, 50) if len(peers) <= b))


def search(ctx, tie_breaks, proof):
    """neighbourhood of the disagreeing histories: token deletions, duplications and time shifts + fresh long histories"""
    rng = ctx.rng
    out = []
    for c in tie_breaks[:20]:
        toks = c["input"].split()[1:]
        for _ in range(100):
            t = list(toks)
            k = rng.randrange(len(t)) if t else 0
            r = rng.random()
            if r < 0.4 and len(t) > 1: del t[k]
            elif r < 0.7 and t: t.insert(k, rng.choice(t))
            else: t.insert(k, rng.choice(["i", "T1000", "T2000", "T300000", "F", "I1", "T1"]))
            out.append("sess " + " ".join(t))
    out += [gen_history(rng, big=rng.random() < 0.1) for _ in range(3000)]
    return out


def shrink(ctx, case):
    """delta debugging over the events while the implementation still contradicts the property"""
    from vlib.runner import diff_side
    import props.C12 as me
    toks = case["input"].split()[1:]
    best = case
    changed, rounds = True, 0
    while changed and rounds < 12 and len(toks) > 1:
        changed = False; rounds += 1
        cands = [toks[:i] + toks[i + 1:] for i in range(len(toks))]
        lines = ["sess " + " ".join(t) for t in cands]
        for cc in diff_side(ctx, me, lines):
            v = judge(ctx, cc)
            if v and v[0] == "spec":
                cc = dict(cc); cc["why"] = v[1]; best = cc
                toks = cc["input"].split()[1:]
                changed = True
                break
    return best


def known(ctx, c):
    return None


# ---- T1X: the numerals of this property's models are tied to the current tree.  extract/consts2*.c + a source scan
# rewrite lean/CoapVerif/Generated/Consts2.lean on every check; Props/C12Consts.lean proves `<model numeral> =
# Generated.C2.<name>` (design/T1.md).  A changed macro / struct size / literal breaks one of these named obligations.
LEAN_MODULES = list(LEAN_MODULES) + ["CoapVerif.Props.C12Consts"]
REQUIRED_THEOREMS = list(REQUIRED_THEOREMS) + [
    "sessionTimeout_matches_code",
    "ticksPerSecond_matches_code",
    "ackTimeoutTicks_matches_code",
    "maxRetransmit_matches_code",
    "nstart_matches_code",
    "protoUdp_matches_code",
    "protoTcp_matches_code",
    "protoReliable_matches_code",
    "partHdr_fits_matches_code",
]
TRUSTED_BASE = list(TRUSTED_BASE) + ["T1 extractors extract/consts2.c, consts2_net.c, consts2_opt.c and the source scan vlib/tables.py scan_consts2 (Generated/Consts2.lean)"]
_t1x_prev_extract = globals().get("extract")


def extract(ctx):
    from vlib import tables
    return (_t1x_prev_extract(ctx) if _t1x_prev_extract else []) + tables.extract_consts2()
