"""C07 — each request concludes exactly once despite loss, duplication and delay (DESIGN.md §4 C07, design/C07.md)."""
import itertools, re
from vlib import common as C, simlib, msglib

MANIFEST = {
    "text": "Lean theorems about M, the transcription of the client side of coap_dispatch/handle_response, of the message layer "
            "(send queue, delay queue, NSTART slot, retransmission, cancel-by-token) and of the scripted server personalities: for every "
            "client state with nothing held back, a CON response is answered by exactly one ACK/RST (again for a duplicate, which is not "
            "re-delivered), FAIL yields a Reset, a NON response is delivered once per datagram, a response takes the request off the "
            "retransmission queue; over WHOLE runs under D1 (any datagrams arriving at any time) the ACK/RST datagrams sent are in order "
            "exactly the CON responses received (plus FAILed NONs) and the handler calls are exactly those the single-slot filter lets "
            "through (run_con_responses_acked, run_con_response_acked_at, run_duplicates_not_redelivered), so the handler is never "
            "handed the same ACK-typed or the same Confirmable message twice in a row - also an ACK-typed response that matched nothing "
            "on the send queue (response_never_delivered_twice_in_a_row, run_ack_response_at); tokens are arbitrary byte strings in "
            "all theorems (the zero-length token included); by a phase invariant over ALL "
            "sequences of timer steps and arrivals of copies of the empty ACK and of the server's response message, a CON request sent "
            "from a quiet session concludes at most once and, once the client is quiet, exactly once unless no copy of the response ever "
            "arrived (exactly_once_partial); liveness: under the fairness hypothesis (a response copy is delivered, or no empty ACK is, "
            "so MAX_RETRANSMIT is exhausted) and a running clock the request HAS concluded, for every schedule (never_neither), exactly "
            "once when no copy arrives after the give-up (concludes_when_quiet_partial); "
            "the piggybacking and the de-duplicating server personalities answer all copies of a request, under every interleaving, with "
            "ONE response message (server_one_response_message); client, network (any loss / duplication / delay of what the peer "
            "transmitted) and server composed in a closed loop: exactly_once_closed_loop_partial, and for piggybacked responses with "
            "delays < ACK_TIMEOUT the timed argument that no copy arrives after the give-up is proved, giving exactly-once without "
            "side conditions, and 'never neither' whenever the client is quiet since such a server sends no empty ACK "
            "(exactly_once_piggybacked, exactly_once_piggybacked_default, exactly_once_piggybacked_quiet); for every such schedule of one "
            "exchange, whatever the response style, the NACK handler is called only after all 1 + MAX_RETRANSMIT transmissions of the "
            "request and no earlier than T * 2^MAX_RETRANSMIT after the last of them (giveup_never_premature), so the answer to the "
            "last transmission still finds the request waiting. M (client, server personalities, network, "
            "event loop) is tied to the compiled code by exact equality of whole traces (every datagram, handler call, NACK, with "
            "virtual timestamps) of a real client and a real server context on generated loss/duplication/delay schedules "
            "(request tokens of 0, 1, 2..8 bytes; server personalities incl. 'da', a peer that sends its response as an ACK-typed "
            "message with a message id of its own after the Empty ACK); the property's clauses are also checked directly on the "
            "implementation's trace, including: a TOO_MANY_RETRIES NACK that came before 5 transmissions / less than 16 * ACK_TIMEOUT "
            "after the last one, followed by the response, is reported as 'NACK and response' (never both) and is NOT taken for the open "
            "finding (whose NACK is on time); schedules in which only the LAST transmission(s) of a request get through are generated "
            "routinely. OBSERVATION ONLY (no theorem, no model): op xchg2 runs TWO client sessions with equal message ids "
            "in one context (shared context->sendqueue) and judges the implementation's trace by the oracle alone."
            " SEVERAL SESSIONS OF ONE CONTEXT ('one exchange outstanding per session'; the sessions share context->sendqueue and may "
            "use equal message ids): on the model of that queue and of the message layer with any number of sessions (Coap.SQ / "
            "Coap.Msg / Coap.MsgX, tied to the compiled code by op msg) coap_remove_from_queue is proved to be keyed by session AND "
            "id - every other entry, in particular every entry of another session with the same id, keeps its place and deadline "
            "(shared_queue_remove_keeps_everybody_else, shared_queue_remove_other_sessions_untouched, shared_queue_remove_takes_own); "
            "an Empty ACK / RST / invalid ACK / piggybacked response processed on one session leaves every other session's con_active, "
            "delay queue and queued Confirmables as they were (reply_concludes_own_session_only, "
            "piggybacked_reply_concludes_own_session_only); over every run with any interleaving and any id collisions a request "
            "accepted once and no longer pending has been concluded exactly once, by its NACK or by a reply received on ITS session "
            "(shared_queue_exactly_once_per_session, reply_on_other_session_concludes_nothing, "
            "replies_on_other_sessions_never_conclude). Checked on the implementation: 2..6 sessions with colliding ids, every queue "
            "order of the colliding nodes, lost / Empty ACK / piggybacked / duplicated / RST replies - per request response-handler "
            "calls + NACKs counted on its own session (never both, twice, neither), no retransmission after its reply, exact trace "
            "equality with the model.",
    "note": "PARTIAL: open finding unsolicited_response_delivered - the client keeps no record of outstanding tokens, so a response "
            "arriving after the NACK, or a second response message from a server that processed a retransmitted request again, is "
            "delivered again; the theorems' hypotheses exclude exactly that: the server piggybacks or de-duplicates (then 'one response "
            "message' is a theorem), and for SEPARATE responses no copy arrives after the give-up (SysNoLate / NoLate: does not follow "
            "from delays < ACK_TIMEOUT because the server retransmits its response long after the client's last request copy; for "
            "piggybacked responses it is proved). Liveness (never_neither) is full strength; its explicit fairness hypothesis excludes exactly D5 (separate "
            "response lost on every transmission after the empty ACK arrived: the request stays open, d5_neither_witness). The closed loop of the "
            "theorems (Sys: logs of transmitted datagrams, any copy deliverable) is an abstraction of the harness event loop Sim.run, "
            "not proved equal to it. For the out-of-RFC personality 'da' only 'never twice' and the hypothesis-free clauses are claimed "
            "(an ACK whose mid matches nothing does not take the request off the retransmission queue: observation O5). Several "
            "sessions sharing one context's send queue: the run-level exactly-once theorem is over the message-layer alphabet (Empty ACK, "
            "RST, invalid ACK, separate response); for piggybacked responses with several sessions the step theorem and the trace tie are "
            "what is shown; the server personalities / lossy network of xchg are not combined with several sessions (xchg2 is judged by "
            "the oracle only). Trusted: Lean kernel (+ propext, Classical.choice, Quot.sound), harness/exchange.c + sim_core.h, "
            "generators and oracle, the hand transcription M (checked against the compiled code on the schedules run only).",
    "design_ref": "DESIGN.md §4 C07, design/C07.md",
}
LEAN_MODULES = ["CoapVerif.Props.C07", "CoapVerif.Props.C07Late", "CoapVerif.Props.C07Sim", "CoapVerif.Props.C07Pers",
                "CoapVerif.Props.C07Loop", "CoapVerif.Props.C07Shared"]
NAMESPACE = "Coap.C07"
REQUIRED_THEOREMS = ["exactly_once_partial", "response_stops_retransmission", "con_response_always_acked",
                     "fail_verdict_resets", "non_delivered_once_per_datagram", "at_most_one_conclusion",
                     "duplicate_not_redelivered", "response_ends_exchange", "late_response_after_nack_witness",
                     "second_response_witness",
                     # liveness, server side condition D2, closed loop + timed argument, whole runs
                     "never_neither", "concludes_when_quiet_partial", "d5_neither_witness", "server_one_response_message",
                     "server_without_dedup_witness", "exactly_once_closed_loop_partial", "exactly_once_piggybacked",
                     "exactly_once_piggybacked_default", "exactly_once_piggybacked_quiet", "run_con_responses_acked", "run_con_response_acked_at",
                     "run_duplicates_not_redelivered",
                     # never twice for ANY ACK-typed / CON response (matched on the send queue or not)
                     "response_never_delivered_twice_in_a_row", "run_ack_response_at",
                     # the give-up (TOO_MANY_RETRIES) comes only after 1 + MAX_RETRANSMIT transmissions and T << MAX_RETRANSMIT after the last
                     "giveup_never_premature",
                     # complement of NoLate: conclusions <= 1 + late copies of the response, exactly 2 with a late copy
                     "lateArrivals_zero_iff_noLate", "conclusions_bounded_by_late_responses", "late_response_is_second_conclusion",
                     # refinement: the harness loop Sim.run (what is compared with the real code) is a run of the closed loop Sys
                     "sim_run_refines_sys", "sim_run_is_sys_run", "sim_exactly_once_partial", "sim_exactly_once_piggybacked",
                     # the exclusion of dn / da from exactly_once_closed_loop_partial is necessary (decided runs of Sys)
                     "dn_duplicate_delivered_twice_witness", "da_response_then_nack_witness",
                     # round 6: what DOES hold in the closed loop for dn / da, every run of Sys, and read on Sim.run
                     "closed_loop_dn", "closed_loop_dn_never_both", "closed_loop_da", "closed_loop_da_both_iff",
                     "closed_loop_da_at_most_once", "closed_loop_da_same_mid_partial",
                     "sim_closed_loop_dn", "sim_closed_loop_dn_never_both", "sim_closed_loop_da",
                     # several sessions of one context share the send queue (message ids may collide): removal is by (session, id),
                     # a reply concludes on its own session only, exactly once per session over every interleaving
                     "shared_queue_remove_keeps_everybody_else", "shared_queue_remove_other_sessions_untouched",
                     "shared_queue_remove_takes_own", "reply_concludes_own_session_only",
                     "piggybacked_reply_concludes_own_session_only", "reply_on_other_session_concludes_nothing",
                     "shared_queue_exactly_once_per_session", "shared_queue_at_most_once_per_session",
                     "replies_on_other_sessions_never_conclude"]
RULE = ("schedules for harness/exchange.c (real client + real server context, virtual clock, scripted network): server personality "
        "(piggyback, coap_async delayed / triggered, application-delayed separate CON / NON / ACK-typed-with-own-mid, each with and "
        "without application-level request de-duplication) x request token (default 2 bytes, zero-length, 1 byte, 2..8 bytes) x fate of every datagram in order of transmission (deliver after d ms / drop / duplicate) x scripted "
        "handler verdicts x 1..5 requests (CON/NON, GET/POST/PUT/DELETE) sent one at a time; exhaustive: every drop pattern over the "
        "first 8 datagrams (with 3 token shapes) and every drop/duplicate pattern over the first 6 for each personality; random "
        "loss/dup/delay beyond; op xchg2: the same requests on two client sessions of one context with equal message ids, every drop "
        "pattern over the first 8 datagrams per personality + random schedules; 'last chance': the first 3 / 4 / 5 transmissions lost, then "
        "every loss/delay pattern (1, 700, 1999 ms) over the next three datagrams per personality, and random runs with a block of 3..9 "
        "losses followed by deliveries with delays below ACK_TIMEOUT; op msg (harness/msg.c): 2..6 sessions of one context, rounds in which "
        "every session sends one request (message ids equal between sessions, any order, any initial timeout), the k-th datagram meets the "
        "k-th fate (lost / Empty ACK / piggybacked response / duplicate / RST, delays 1..1999 ms), the I/O loop runs until nothing is pending "
        "before the next round; exhaustive: 3 sessions x 4 collision patterns x 6 deadline orders x 4^3 fates, 4 sessions x 24 orders x 2^4; "
        "non-trivial = distinct schedule in which the response handler or the NACK handler ran")
TRUSTED_BASE = ["Lean 4.33 kernel; axioms allowed: propext, Classical.choice, Quot.sound (audited per theorem each run)",
                "harness/exchange.c + harness/sim_core.h (virtual clock, scripted network, simulation loop), generators, the trace oracle in props/C07.py",
                "harness/msg.c + Driver/Msg.lean (scenario interpreter of op msg, shared with C06 / C08), vlib/msglib.py (trace parsing, tie)",
                "M (CoapVerif/Model/Exchange.lean) is a hand transcription of coap_dispatch/handle_response/coap_send_pdu/coap_retransmit/"
                "coap_session_connected/coap_cancel_all_messages and of the async gate of handle_request; checked against the compiled code "
                "by exact trace equality on the schedules run only"]
ASSUMPTIONS = ["UDP, NSTART=1, MAX_RETRANSMIT=4, default ACK_TIMEOUT/ACK_RANDOM_FACTOR, block mode off, no OSCORE, no keep-alive",
               "D1 one exchange outstanding = the next request is sent when the previous exchange is over on the wire (system quiescent)",
               "D2 exactly-once is claimed when the server produces one response message per request (RFC 7252 4.5 de-duplication is the "
               "server's); D3 a NON response is delivered once per copy the network delivers; D4 FAIL on a piggybacked response cannot be "
               "reset; D5 'never neither' is claimed unless every copy of a separate response was lost after the empty ACK arrived",
               "message ids do not wrap within a run; compiled Lean definitions agree with the kernel's reading of them"]
SPEC_DECISIONS = ["D1 one exchange outstanding = previous exchange over on the wire", "D2 server answers with one response message",
                  "D3 NON response delivered once per datagram copy", "D4 no Reset for a piggybacked response",
                  "D5 liveness needs one delivered copy of a separate response"]
RUN_KW = {"timeout": 1200}
ACK_TIMEOUT = 2000
PERS = ["pb", "ac", "ac+", "at", "at+", "dc", "dc+", "dn", "dn+", "da", "da+"]


def harness(ctx):
    return simlib.build_sim_harness("exchange")


# op `msg` (harness/msg.c, model Coap.Msg / Coap.MsgX through Driver/Msg.lean - the scenario interpreter C06 / C08 use): ONE client
# context with SEVERAL sessions whose Confirmables share context->sendqueue.  C07 runs its own family of such lines
# (shared_queue() below: one exchange outstanding PER SESSION, message ids colliding between sessions) and judges them with its own
# conclusion-counting oracle (oracle_msg); the tie to M is the exact trace comparison of vlib/msglib.py.
HARNESS_FOR_OP = {"msg": lambda ctx: msglib.harness(ctx)}


# --------------------------------------------------------------------------------------------- generator
def line(pers, D, cm, sm, rc, rs, mode, reqs, verd, fates, op="xchg"):
    return "%s %s %d %d %d %d %d %s %s %s %s" % (op, pers, D, cm, sm, rc, rs, mode, ",".join(reqs), verd or "-", ",".join(fates) or "-")


def generate(ctx, escalate=False):
    rng = ctx.rng
    out = []
    thorough = ctx.thorough()
    # exhaustive part: every drop pattern over the first 8 datagrams, every drop/dup pattern over the first 6 (thorough: 8)
    for pers in PERS:
        D = 300
        for k, pat in enumerate(itertools.product(["d0", "x"], repeat=8)):
            out.append(line(pers, D, 1000, 5000, 0, 0, "q", ["C1"], "", list(pat)))
            # the same with other token shapes: zero-length (RFC 7252 5.3.1) always, one byte / eight bytes alternating
            out.append(line(pers, D, 1000, 5000, 0, 0, "q", ["C1/-"], "", list(pat)))
            out.append(line(pers, D, 1000, 5000, 0, 0, "q", ["C1/" + ("5a", "0102030405060708")[k % 2]], "", list(pat)))
        k = 8 if thorough else 6
        for pat in itertools.product(["d0", "x", "u0+700"], repeat=k):
            if "u0+700" in pat:
                out.append(line(pers, D, 1000, 5000, 128, 7, "q", ["C2"], "", list(pat)))
    # two client sessions with EQUAL message ids in one context (shared context->sendqueue): every drop pattern over the first
    # 8 datagrams for each personality, random schedules beyond (implementation judged by the oracle only, see design/C07.md)
    for pers in PERS:
        for pat in itertools.product(["d0", "x"], repeat=8):
            out.append(line(pers, 300, 1000, 5000, 0, 0, "q", ["C1"], "", list(pat), op="xchg2"))
    for _ in range(30000 if thorough else 3000):
        cm = rng.choice([rng.randrange(65536), 65533, 1000])
        fates = []
        loss = rng.choice([0.1, 0.3, 0.6])
        for _ in range(rng.choice([0, 4, 10, 20, 40])):
            c = rng.random()
            fates.append("x" if c < loss else ("u%d+%d" % (rdelay(rng), rdelay(rng)) if c < loss + 0.15 else "d%d" % rdelay(rng)))
        out.append(line(rng.choice(PERS), rng.choice([1, 50, 500, 1999, 2500, 5000]), cm, cm if rng.random() < 0.3 else rng.randrange(65536),
                        rng.choice([0, 255, rng.randrange(256)]), rng.choice([0, 255, rng.randrange(256)]), "q",
                        [rng.choice("CCCN") + rng.choice("1234") for _ in range(rng.choice([1, 1, 2, 3]))],
                        "".join(rng.choice("ooof") for _ in range(rng.choice([0, 0, 4]))), fates, op="xchg2"))
    n = 200000 if thorough else 20000
    if escalate:
        n *= 3
    for _ in range(n):
        pers = rng.choice(PERS)
        D = rng.choice([1, 50, 500, 1999, 2500, 5000, 20000])
        cm = rng.choice([rng.randrange(65536), 65533, 1000])
        sm = cm if rng.random() < 0.3 else rng.randrange(65536)
        rc, rs = rng.choice([0, 255, rng.randrange(256)]), rng.choice([0, 255, rng.randrange(256)])
        mode = "q" if rng.random() < 0.8 else "e"
        reqs = [rng.choice("CCCN") + rng.choice("1234") for _ in range(rng.choice([1, 1, 2, 3, 4, 5]))]
        reqs = with_tokens(rng, reqs)
        verd = "".join(rng.choice("ooof") for _ in range(rng.choice([0, 0, 2, 6])))
        fates = []
        loss = rng.choice([0.1, 0.3, 0.6, 0.85])
        for _ in range(rng.choice([0, 4, 10, 20, 40])):
            c = rng.random()
            if c < loss:
                fates.append("x")
            elif c < loss + 0.15:
                fates.append("u%d+%d" % (rdelay(rng), rdelay(rng)))
            else:
                fates.append("d%d" % rdelay(rng))
        out.append(line(pers, D, cm, sm, rc, rs, mode, reqs, verd, fates))
    # "last chance" (round 4, seeded C07-10): the first k transmissions of the request are lost, k around MAX_RETRANSMIT, so the
    # exchange is decided by what happens to the LAST transmission(s) and in the wait after them (T << MAX_RETRANSMIT): every
    # loss / delay pattern (delays up to just under ACK_TIMEOUT) over the next three datagrams, shortest / longest initial timeout
    out += last_chance(rng, 25000 if thorough else 2500)   # last: the random streams above stay as they were
    # several sessions of one context, one exchange outstanding per session, equal message ids in flight on different sessions
    # (seeded C07-14); appended after everything else for the same reason
    out += shared_queue(rng, 40000 if thorough else 4000)
    return out


def last_chance(rng, nrand=2500):
    out = []
    for pers in PERS:
        for k in (3, 4, 5):
            for j, tail in enumerate(itertools.product(["d1", "d700", "d1999", "x"], repeat=3)):
                rc = (0, 255)[(j + k) % 2]
                out.append(line(pers, (300, 1, 1999)[j % 3], 1000, 5000, rc, (255, 0)[j % 2], "q", ["C1"], "", ["x"] * k + list(tail)))
    # the same inside longer runs: some datagrams get through first (an earlier exchange, or the Empty ACK / first copies of this one),
    # then a run of losses of about MAX_RETRANSMIT (.. 2 * MAX_RETRANSMIT + 1: both endpoints' retransmissions), then deliveries with
    # delays anywhere below ACK_TIMEOUT; 1..3 requests, any token shape, any initial timeout
    for n in range(nrand):
        fates = ["d%d" % rdelay(rng) for _ in range(rng.choice([0, 0, 1, 2, 3, 4, 6]))]
        fates += ["x"] * rng.choice([3, 4, 4, 4, 4, 5, 8, 9])
        for _ in range(rng.choice([1, 2, 2, 3, 4, 6])):
            c = rng.random()
            fates.append("x" if c < 0.15 else ("u%d+%d" % (rdelay(rng), rdelay(rng)) if c < 0.25 else "d%d" % rng.choice([0, 1, 150, 700, 1999, rng.randrange(2000)])))
        if rng.random() < 0.3:
            fates += ["x"] * rng.choice([4, 5]) + ["d%d" % rdelay(rng) for _ in range(rng.choice([1, 2, 3]))]
        cm = rng.choice([rng.randrange(65536), 65533, 1000])
        two = n % 10 == 9
        reqs = [rng.choice("CCCCN") + rng.choice("1234") for _ in range(rng.choice([1, 1, 2, 3]))]
        if not two:
            reqs = with_tokens(rng, reqs)
        out.append(line(rng.choice(PERS), rng.choice([1, 50, 300, 500, 1999, 2500]), cm, cm if rng.random() < 0.3 else rng.randrange(65536),
                        rng.choice([0, 255, rng.randrange(256)]), rng.choice([0, 255, rng.randrange(256)]), "q", reqs,
                        "".join(rng.choice("ooof") for _ in range(rng.choice([0, 0, 4]))), fates, op=("xchg2" if two else "xchg")))
    return out


# ------------------------------------------------------------------------- several sessions, one send queue (op `msg`)
def sq_line(nsess, fates, evs, maxrtx=4):
    """one `msg` line: nsess UDP sessions of ONE context (default ACK_TIMEOUT 2 s, ACK_RANDOM_FACTOR 1.5, NSTART 1)"""
    return "msg %s %s %s" % (",".join([msglib.sess_word((2, 0, 1, 500, maxrtx), 1)] * nsess), ",".join(fates) or "-", " ".join(evs))


def shared_queue(rng, nrand=4000):
    """"... with one exchange outstanding PER SESSION": the sessions of a context keep their Confirmables in ONE retransmission queue
    (context->sendqueue) and choose their message ids independently (random start value per session), so requests with EQUAL message
    ids on different sessions are in that queue together.  Every request must still conclude exactly once, by the reply that arrives
    on ITS session.  A line = rounds; in a round every session sends (at most) one request, in any order and with any initial timeout
    (so the colliding nodes sit anywhere in the queue: head, middle, tail), the scripted peer answers the k-th datagram with the k-th
    fate (lost, Empty ACK, piggybacked response, its duplicate, RST; every delay < ACK_TIMEOUT) and `g:3000` runs the I/O loop until
    nothing is pending - only then does the next round start (D1 on every session)."""
    out = []
    # exhaustive: three sessions, every way two or three of them carry the same id, every order of the three deadlines, every fate
    # of the first transmission of each
    for mids in ((1000, 1000, 1000), (1001, 1000, 1000), (1000, 1001, 1000), (1000, 1000, 1001)):
        for rb in itertools.permutations((0, 128, 255)):
            for pat in itertools.product(["d", "a50", "p50", "r50"], repeat=3):
                out.append(sq_line(3, list(pat), ["s:%d:c:%d:%d" % (i, mids[i], rb[i]) for i in range(3)] + ["g:3000"]))
    # four sessions, one id, every order of the four deadlines, answered / lost in every combination
    for rb in itertools.permutations((0, 85, 170, 255)):
        for pat in itertools.product(["d", "p700"], repeat=4):
            out.append(sq_line(4, list(pat), ["s:%d:c:%d:%d" % (i, 65535, rb[i]) for i in range(4)] + ["g:3000"], maxrtx=2))
    # (delays >= 1: `g` of harness/msg.c sleeps until the next arrival and delivers it when the clock gets there - an arrival at the
    # very instant of the transmission is only delivered once something else advances the clock)
    dl = lambda: rng.choice([1, 1, 2, 50, 700, 1500, 1999, 1 + rng.randrange(1999)])
    for _ in range(nrand):
        ns = rng.choice([2, 3, 3, 3, 4, 4, 5, 6])
        base = [rng.choice([1000, 1000, 1000, 65535, rng.randrange(65536)]) for _ in range(ns)]
        evs, nreq = [], 0
        for k in range(rng.choice([1, 1, 2, 3])):
            order = list(range(ns))
            rng.shuffle(order)
            for s in order:
                if rng.random() < 0.15:
                    continue                      # this session sits the round out
                evs.append("s:%d:%s:%d:%d" % (s, "c" if rng.random() < 0.9 else "n", (base[s] + k) % 65536, rng.choice([0, 255, 128, rng.randrange(256)])))
                nreq += 1
                if rng.random() < 0.3:
                    evs.append("t:%d" % rng.choice([0, 1, 50, 400, 999, 1500]))
            evs.append("g:3000")
        fates = []
        for _ in range(rng.randint(0, 3 * nreq)):
            c = rng.random()
            fates.append("d" if c < 0.35 else "a%d" % dl() if c < 0.47 else "p%d" % dl() if c < 0.78 else "P%d+%d" % (dl(), dl()) if c < 0.88
                         else "r%d" % dl() if c < 0.95 else "A%d+%d" % (dl(), dl()))
        if rng.random() < 0.3:
            fates += ["p%d" % dl()] * rng.choice([1, 3, 8])
        out.append(sq_line(ns, fates, evs, maxrtx=rng.choice([4, 4, 4, 2, 1])))
    return out


def with_tokens(rng, reqs):
    """token shapes: default (c0+i 07) mostly; zero-length, 1, 2..7, 8 bytes otherwise; distinct within a line"""
    if rng.random() < 0.5:
        return reqs
    out, used = [], set("%02x07" % (0xc0 + i) for i in range(len(reqs)))
    for i, r in enumerate(reqs):
        c = rng.random()
        if c < 0.4:
            out.append(r)
            continue
        if c < 0.6:
            t = "-"
        elif c < 0.75:
            t = "%02x" % rng.choice([0, i, 0xff, rng.randrange(256)])
        elif c < 0.9:
            t = "".join("%02x" % rng.randrange(256) for _ in range(8))
        else:
            t = "".join("%02x" % rng.randrange(256) for _ in range(rng.randrange(2, 8)))
        if t in used:
            out.append(r)
            continue
        used.add(t)
        out.append(r + "/" + t)
    return out


def rdelay(rng):
    return rng.choice([0, 0, 1, 700, 1500, 1999, rng.randrange(2000)])


# --------------------------------------------------------------------------------------------- trace oracle (on I only)
TOK = re.compile(r"^(\w+)@(\d+):?(.*)$")


def parse_trace(s):
    ev = []
    for w in (s or "").split():
        m = TOK.match(w)
        if m:
            ev.append((m.group(1), int(m.group(2)), m.group(3).split(":") if m.group(3) else []))
    return ev


def parse_input(l):
    w = l.split()
    fates = [] if w[10] == "-" else w[10].split(",")
    delays = []
    for f in fates:
        if f[0] == "d":
            delays.append(int(f[1:]))
        elif f[0] == "u":
            a, b = f[1:].split("+")
            delays += [int(a), int(b)]
    reqs = w[8].split(",")
    if w[0] == "xchg2":       # every entry is sent on session A and on session B: requests 2i and 2i+1
        reqs = [r[:2] for r in reqs for _ in (0, 1)]
    toks = [(r[3:] if len(r) > 2 else "%02x07" % (0xc0 + i)) for i, r in enumerate(reqs)]
    return {"pers": w[1], "D": int(w[2]), "mode": w[7], "reqs": reqs, "toks": toks, "maxdelay": max(delays or [0])}


def oracle(inp, trace):
    """returns (kind, why) or None.  kind: 'clause' (hypothesis-free clauses), 'unsolicited' (known finding class), 'once' """
    if trace is None or trace.startswith("crash") or trace.startswith("bad-op"):
        return ("clause", "harness: %s" % (trace or "no output")[:200])
    ev = parse_trace(trace)
    info = parse_input(inp)
    reqs = {}      # index -> dict(mid, tok)
    for idx, (k, t, a) in enumerate(ev):
        if k == "send":
            i = int(a[0])
            reqs[i] = {"mid": a[1], "tok": info["toks"][i], "con": info["reqs"][i][0] == "C", "t": t, "idx": idx}
    # ---- hypothesis-free clauses, checked on every run
    n = len(ev)
    first_verdict = {}
    delivered = {}          # (K, mid, tok) -> handler calls
    arrived = {}            # (K, mid, tok) -> arrivals at the client
    stopped = set()         # request mids whose retransmission must have stopped
    on_wire = set()         # mids of the Confirmable requests transmitted so far
    last_call = {"A": None, "C": None}   # mid of the previous handler call with an ACK-typed / a CON response
    for idx, (k, t, a) in enumerate(ev):
        if k == "rsp" and a[0] in last_call:
            # never twice: the message the handler saw last (per type: last_ack_mid / last_con_mid) is not handed to it again
            if last_call[a[0]] == a[2]:
                return ("clause", "duplicate_not_redelivered (never twice): %s response mid=%s token %s passed to the response "
                                  "handler twice in a row (at %d)" % ("ACK-typed" if a[0] == "A" else "CON", a[2], a[3], t))
            last_call[a[0]] = a[2]
        if k == "crx" and len(a) == 4:
            K, code, mid, tok = a[0], int(a[1]), a[2], a[3]
            if code >= 64:
                arrived[(K, mid, tok)] = arrived.get((K, mid, tok), 0) + 1
                # a separate (CON / NON) response stops, by its token, the request transmitted before it
                if K in ("C", "N"):
                    for r in reqs.values():
                        if r["tok"] == tok and r["mid"] in on_wire:
                            stopped.add(r["mid"])
            # an ACK (empty or piggybacked response) stops the request that carries its message id (if it has been transmitted:
            # a request still held back by NSTART is not on the retransmission queue)
            if K == "A" and mid in on_wire:
                stopped.add(mid)
            # what the client does before the next arrival / time step
            j = idx + 1
            calls, acks, rsts = [], [], []
            while j < n and ev[j][0] not in ("crx", "srx", "send", "end"):
                kk, tt, aa = ev[j]
                if tt != t:
                    break
                if kk == "rsp" and aa[:4] == a[:4]:
                    calls.append(aa[4])
                if kk == "ctx" and aa[0] == "A" and aa[2] == mid:
                    acks.append(j)
                if kk == "ctx" and aa[0] == "R" and aa[2] == mid:
                    rsts.append(j)
                j += 1
            if code >= 64:
                key = (K, mid, tok)
                delivered[key] = delivered.get(key, 0) + len(calls)
                if K == "C":
                    if len(acks) + len(rsts) != 1:
                        return ("clause", "con_response_always_acked: CON response mid=%s at %d answered by %d ACK / %d RST" % (mid, t, len(acks), len(rsts)))
                    if calls:
                        first_verdict[key] = calls[0]
                        if (calls[0] == "f") != (len(rsts) == 1):
                            return ("clause", "fail_verdict_resets: CON response mid=%s verdict %s but %s sent" % (mid, calls[0], "RST" if rsts else "ACK"))
                    elif info["mode"] == "q" and first_verdict.get(key) == "o" and rsts:
                        # D1 (no other exchange in between): the duplicate of a response the handler ACCEPTED is acknowledged again
                        return ("clause", "con_response_always_acked: the duplicate of the accepted CON response mid=%s was answered "
                                          "with a Reset at %d instead of being acknowledged again" % (mid, t))
                if K == "N":
                    if len(calls) != 1:
                        return ("clause", "non_delivered_once_per_datagram: NON response mid=%s at %d delivered %d times" % (mid, t, len(calls)))
                    if (calls[0] == "f") != (len(rsts) == 1) or acks:
                        return ("clause", "fail_verdict_resets: NON response mid=%s verdict %s, %d RST %d ACK" % (mid, calls[0], len(rsts), len(acks)))
                if K == "A" and (acks or rsts):
                    return ("clause", "piggybacked response mid=%s answered by a message" % mid)
        if k == "ctx" and len(a) == 4 and a[0] == "C" and a[2] in stopped and 0 < int(a[1]) < 32:
            return ("clause", "response_stops_retransmission: request mid=%s retransmitted at %d after its response/ACK arrived" % (a[2], t))
        if k == "ctx" and len(a) == 4 and a[0] == "C" and 0 < int(a[1]) < 32:
            on_wire.add(a[2])
    # ---- what the application is told: the PDU handed to the NACK handler (`sent`) carries the token of the request whose
    #      message id is reported (the harness books a NACK by the token of `sent`, the trace names the mid)
    if len(set(info["toks"])) == len(info["toks"]):
        for m in re.finditer(r" sum:(\d+)=(\d+)/(\d+)", trace):
            i, nn = int(m.group(1)), int(m.group(3))
            if i in reqs:
                want = sum(1 for k, t, a in ev if k == "nack" and a[1] == reqs[i]["mid"])
                if nn != want:
                    return ("clause", "NACK handler: request %d (mid=%s, token %s) was reported %d NACK(s) by message id but %d by the token "
                                      "of the PDU passed to the handler" % (i, reqs[i]["mid"], reqs[i]["tok"], want, nn))
    # ---- exactly once, under the hypotheses
    if info["mode"] != "q" or info["maxdelay"] >= ACK_TIMEOUT:
        return None
    quiet = " st:" in trace and trace.rstrip().endswith("q=1")
    if len(set(info["toks"])) != len(info["toks"]):
        return None           # a token used by two requests of the line: conclusions cannot be attributed by token
    for i, r in sorted(reqs.items()):
        if not r["con"]:
            continue
        if any(k == "rsp" and a[3] == r["tok"] and a[0] == "A" and a[2] != r["mid"] for k, t, a in ev):
            # O5: an ACK-typed message whose mid is not the request's is no response style of RFC 7252 (5.3.2: to be ignored);
            # libcoap delivers it by token but does not take the request off the retransmission queue.  Exactly-once is not
            # claimed for such a peer; "never twice" is (clause above: not handed to the handler twice in a row).
            continue
        concl = []        # in trace order: ('rsp', K, mid) / ('nack', reason)
        for k, t, a in ev:
            if k == "rsp" and a[3] == r["tok"]:
                concl.append(("rsp", a[0], a[2], t))
            if k == "nack" and a[1] == r["mid"]:
                concl.append(("nack", a[0], a[1], t))
        msgs = []
        for c in concl:
            if c[:3] not in msgs:
                msgs.append(c[:3])
        nons = [m for m in msgs if m[0] == "rsp" and m[1] == "N"]
        if len(msgs) > 1:
            # more than one distinct concluding message: a later, different response message or a response after the NACK
            if msgs[0][0] == "rsp" and any(m[0] == "nack" for m in msgs[1:]):
                return ("once", "request %d (mid=%s) got a response and then a NACK: %s" % (i, r["mid"], msgs))
            early = premature_giveup(ev, r)
            if early and concl[0][:2] == ("nack", "retries") and any(c[0] == "rsp" for c in concl[1:]):
                # "never both": the give-up came before the answer to the request's last transmission(s) could be back (theorem
                # giveup_never_premature read on I: TOO_MANY_RETRIES only after 1 + MAX_RETRANSMIT transmissions and no earlier than
                # ACK_TIMEOUT * 2^MAX_RETRANSMIT after the last one) - NOT the open finding, whose NACK is on time
                rsp = [c for c in concl if c[0] == "rsp"][0]
                return ("once", "never both: request %d (mid=%s, token %s) was given up (NACK TOO_MANY_RETRIES) at %d, %s, and then "
                                "its %s response mid=%s was passed to the response handler at %d: NACK and response"
                                % (i, r["mid"], r["tok"], concl[0][3], early, {"A": "piggybacked", "C": "separate CON", "N": "separate NON"}.get(rsp[1], rsp[1]),
                                   rsp[2], rsp[3]))
            return ("unsolicited", "request %d (mid=%s, token %s) concluded by %s and then again by %s" % (i, r["mid"], r["tok"], msgs[0], msgs[1:]))
        if not msgs:
            got_empty_ack = any(k == "crx" and a[:3] == ["A", "0", r["mid"]] for k, t, a in ev)
            got_rsp = any(k == "crx" and len(a) == 4 and int(a[1]) >= 64 and a[3] == r["tok"] for k, t, a in ev)
            if got_empty_ack and not got_rsp:
                continue      # D5: the server took over and every copy of its separate response was lost
            return ("once", "request %d (mid=%s) concluded neither by a response nor by a NACK%s" % (i, r["mid"], "" if quiet else " (system not quiescent at the end)"))
        if len(msgs) == 1 and msgs[0][0] == "rsp" and msgs[0][1] != "N" and len(concl) > 1:
            return ("once", "duplicate_not_redelivered: request %d: response %s delivered %d times" % (i, msgs[0], len(concl)))
        if len(msgs) == 1 and msgs[0][0] == "nack" and len(concl) > 1:
            return ("once", "request %d: NACK %s delivered %d times" % (i, msgs[0], len(concl)))
    return None


MSG_FAMILY_EVS = ("s", "t", "n", "g")


def oracle_msg(inp, trace):
    """C07 read on the trace of I alone for a `msg` line of the family shared_queue(): several sessions of one context, one exchange
    outstanding per session, possibly EQUAL message ids in flight on different sessions.  Per Confirmable request (session, mid):
    conclusions = response-handler calls on ITS session carrying ITS message id (the responses of this family are piggybacked) + NACK
    handler calls for it; never both, never twice, never neither once nothing is pending (unless an Empty ACK arrived and no response
    followed: D5); nothing is transmitted again after an ACK / RST with its id arrived ON ITS SESSION; a handler call needs an arrival.
    Returns (kind, why) or None; lines outside the family (other events / fates, delays >= ACK_TIMEOUT, a session with two requests
    between two quiescent points) are not judged."""
    if trace is None or trace.startswith("crash") or trace.startswith("bad-op"):
        return ("clause", "harness: %s" % (trace or "no output")[:200])
    it = msglib.toks(trace)
    sess, fates, evs, steps = msglib.walk(inp, it)
    if len(steps) != len(evs):
        return None
    if any(e.split(":")[0] not in MSG_FAMILY_EVS for e in evs) or any(f[0] not in "daAprPR" for f in fates):
        return None
    ato = min(1000 * p[0] + p[1] for p in sess)
    if any(not (1 <= int(d) < ato) for f in fates if f != "d" for d in f[1:].split("+")):
        return None
    busy, subs = set(), set()
    for e in evs:           # D1 per session, on the input: between two requests of a session the I/O loop runs until nothing is pending
        f = e.split(":")
        if f[0] == "s":
            if int(f[1]) in busy or (int(f[1]), int(f[3])) in subs or int(f[1]) >= len(sess):
                return None
            busy.add(int(f[1]))
            subs.add((int(f[1]), int(f[3])))
        elif f[0] == "g" and int(f[1]) >= 200:
            busy.clear()
    req, nfate, last_arrival = {}, 0, 0
    for ev, ts, dump in steps:
        f = ev.split(":")
        if f[0] == "s" and f[2] == "c" and any(msglib.SUB.match(t) and t != "sub=rej" for t in ts):
            req[(int(f[1]), int(f[3]))] = {"tx": [], "rsp": [], "nack": [], "arr": []}
        for t in ts:
            m = msglib.TX.match(t) or msglib.TXF.match(t)
            if m:
                tm, s, kind, mid = int(m.group(1)), int(m.group(2)), m.group(3), int(m.group(4))
                fate = fates[nfate] if nfate < len(fates) else "d"       # the scripted peer: k-th datagram, k-th fate
                nfate += 1
                r = req.get((s, mid))
                if kind == "C" and r is None:
                    return ("clause", "a Confirmable with message id %d is transmitted on session %d at %d: no such request was accepted there" % (mid, s, tm))
                if kind == "C":
                    r["tx"].append(tm)
                    if fate[0] in "aAprPR":
                        for d in fate[1:].split("+"):
                            r["arr"].append((tm + int(d), fate[0].lower()))
                            last_arrival = max(last_arrival, tm + int(d))
                continue
            m = msglib.RSP.match(t)
            if m:
                tm, s, mid = int(m.group(1)), int(m.group(2)), int(m.group(3))
                if (s, mid) not in req:
                    return ("clause", "response handler called at %d on session %d with message id %d: no request with that id is outstanding there" % (tm, s, mid))
                req[(s, mid)]["rsp"].append(tm)
                continue
            m = msglib.NACK.match(t)
            if m and m.group(1) == "nack":
                tm, s, reason, mid = int(m.group(2)), int(m.group(3)), m.group(4), int(m.group(5))
                if (s, mid) not in req:
                    return ("clause", "NACK handler (%s) called at %d on session %d for message id %d: no Confirmable with that id was sent there" % (reason, tm, s, mid))
                req[(s, mid)]["nack"].append((tm, reason))
    ev, ts, (ca, dq, q) = steps[-1]
    ws = [msglib.W.match(t) for t in ts if t.startswith("w@")]
    quiet = (ev.split(":")[0] == "g" and ws and ws[-1] is not None and int(ws[-1].group(2)) == 0 and int(ws[-1].group(3)) == 0 and not q
             and last_arrival <= int(ws[-1].group(1)))
    others = lambda s, mid: [s2 for (s2, m2) in req if m2 == mid and s2 != s]
    found = []
    for (s, mid), r in sorted(req.items()):
        who = "request mid=%d of session %d" % (mid, s)
        shared = others(s, mid)
        if shared:
            who += " (session%s %s had the same message id in flight in the same send queue)" % ("s" if len(shared) > 1 else "", ",".join(map(str, shared)))
        arr = sorted(r["arr"])
        n = len(r["rsp"]) + len(r["nack"])
        if r["rsp"] and r["nack"]:
            found.append((0, "once", "never both: %s was concluded by the response handler at %d AND by the NACK handler (%s) at %d" % (
                who, r["rsp"][0], r["nack"][0][1], r["nack"][0][0])))
        elif n > 1:
            found.append((0, "once", "never twice: %s was concluded %d times (response handler at %s, NACK at %s)" % (
                who, n, r["rsp"], [a for a, _ in r["nack"]])))
        if n == 0 and quiet and not any(k == "a" for _, k in arr):
            found.append((1, "once", "never neither: %s was transmitted %d time(s) and concluded neither by a response nor by a NACK although nothing "
                                      "is pending any more (wait 0, empty send queue, con_active %s)" % (who, len(r["tx"]), ca)))
        if arr:
            t0, k0 = arr[0]
            what = {"a": "the Empty ACK", "p": "the piggybacked response", "r": "the RST"}[k0]
            late = [t for t in r["tx"] if t > t0]
            if late:
                found.append((2, "clause", "response_stops_retransmission: %s was retransmitted at %d after %s carrying its id arrived on its "
                                           "session at %d" % (who, late[0], what, t0)))
            lost = [a for a, why in r["nack"] if why == "retries" and a > t0]
            if lost and not (r["rsp"] and r["nack"]):
                found.append((2, "once", "%s was given up (TOO_MANY_RETRIES) at %d after %s carrying its id arrived on its session at %d" % (who, lost[0], what, t0)))
        for t in r["rsp"]:
            if not any(a == t and k == "p" for a, k in arr):
                found.append((3, "clause", "response handler called at %d for %s although no response for it arrived then" % (t, who)))
        for t, why in r["nack"]:
            if why == "retries" and len([x for x in r["tx"] if x <= t]) != sess[s][4] + 1:
                found.append((3, "clause", "giveup_never_premature: %s given up at %d after %d transmission(s), 1 + MAX_RETRANSMIT = %d" % (
                    who, t, len([x for x in r["tx"] if x <= t]), sess[s][4] + 1)))
            if why == "rst" and not any(a == t and k == "r" for a, k in arr):
                found.append((3, "clause", "NACK (RST) at %d for %s although no RST for it arrived then" % (t, who)))
    if found:
        found.sort(key=lambda x: x[0])
        return (found[0][1], found[0][2])
    return None


MAX_RETRANSMIT = 4


def premature_giveup(ev, r):
    """the first TOO_MANY_RETRIES NACK of request r: None when it is on time - all 1 + MAX_RETRANSMIT transmissions made and at least
    ACK_TIMEOUT << MAX_RETRANSMIT (the shortest initial timeout, ACK_RANDOM_FACTOR 1.0, doubled MAX_RETRANSMIT times) after the last of
    them - else the reason as text"""
    tx = []
    for k, t, a in ev[r["idx"]:]:
        if k == "ctx" and len(a) == 4 and a[0] == "C" and a[2] == r["mid"] and 0 < int(a[1]) < 32:
            tx.append(t)
        if k == "nack" and a[0] == "retries" and a[1] == r["mid"]:
            if not tx:
                return "before any transmission"
            if len(tx) < 1 + MAX_RETRANSMIT:
                return "after only %d of the %d transmissions (last at %d)" % (len(tx), 1 + MAX_RETRANSMIT, tx[-1])
            if t - tx[-1] < (ACK_TIMEOUT << MAX_RETRANSMIT):
                return "only %d ms after its last transmission at %d (the wait after transmission %d is ACK_TIMEOUT*2^MAX_RETRANSMIT >= %d ms)" % (
                    t - tx[-1], tx[-1], len(tx), ACK_TIMEOUT << MAX_RETRANSMIT)
            return None
    return None


def judge(ctx, c):
    i, m = c["impl"], c["model"]
    if c["input"].startswith("msg "):
        # several sessions sharing the context's send queue: C07's own oracle on I's trace; tie = exact trace equality with Coap.Msg / MsgX
        v = oracle_msg(c["input"], i)
        if v:
            return ("spec", "%s: shared send queue: %s" % (v[0], v[1]))
        t = msglib.judge_msg(ctx, c, lambda line, it: None)
        return ("tie", t[1]) if t else None
    v = oracle(c["input"], i)
    if v:
        return ("spec", "%s: %s" % (v[0], v[1]))
    if c["input"].startswith("xchg2 "):
        return None if m == "-" else ("tie", "driver: %s" % m)      # two sessions in one context: oracle only (no model)
    if i != m:
        return ("tie", "trace of the implementation differs from the model's: %s" % first_diff(i, m))
    return None


def first_diff(a, b):
    x, y = (a or "").split(), (b or "").split()
    for k in range(max(len(x), len(y))):
        p, q = (x[k] if k < len(x) else "<end>"), (y[k] if k < len(y) else "<end>")
        if p != q:
            return "position %d: implementation %s, model %s" % (k, p, q)
    return "?"


def known(ctx, c):
    if c.get("why", "").startswith("unsolicited:"):
        return "unsolicited_response_delivered"
    return None


def nontrivial(c):
    return " rsp@" in (c["impl"] or "") or " nack@" in (c["impl"] or "")


def classify(c):
    w = c["input"].split()
    i = c["impl"] or ""
    if w[0] == "msg":
        return "msg%d:%s" % (len(w[1].split(",")), "nack" if " nack@" in i else ("rsp" if " rsp@" in i else "none"))
    return "%s%s:%s:%s" % ("2x" if w[0] == "xchg2" else "", w[1], w[7], "nack" if " nack@" in i else ("rsp" if " rsp@" in i else "none"))


def search(ctx, tie_breaks, proof):
    """vary the schedules around the disagreeing ones (other personalities, verdicts, duplicated fates)"""
    rng = ctx.rng
    out = []
    for c in tie_breaks[:40]:
        w = c["input"].split()
        if w[0] == "msg":
            # the same sessions and requests under other fates (answered / lost / duplicated / reset in other places)
            for _ in range(150):
                f = [] if w[2] == "-" else w[2].split(",")
                for _ in range(rng.choice([1, 2, 3])):
                    nf = rng.choice(["d", "p%d" % rdelay(rng), "a%d" % rdelay(rng), "r%d" % rdelay(rng), "P%d+%d" % (rdelay(rng), rdelay(rng))])
                    if f and rng.random() < 0.7:
                        f[rng.randrange(len(f))] = nf
                    else:
                        f.append(nf)
                out.append(" ".join(w[:2] + [",".join(f)] + w[3:]))
            continue
        fates = [] if w[10] == "-" else w[10].split(",")
        for _ in range(150):
            f = list(fates)
            for _ in range(rng.choice([1, 2, 3])):
                if f and rng.random() < 0.7:
                    f[rng.randrange(len(f))] = rng.choice(["x", "d0", "u0+%d" % rdelay(rng), "d%d" % rdelay(rng)])
                else:
                    f.append(rng.choice(["x", "d0", "u0+%d" % rdelay(rng)]))
            ww = list(w)
            ww[10] = ",".join(f) or "-"
            ww[7] = "q"
            if rng.random() < 0.3:
                ww[1] = rng.choice(PERS)
            if rng.random() < 0.3:
                ww[9] = "".join(rng.choice("of") for _ in range(4))
            out.append(" ".join(ww))
    return out


def shrink(ctx, case):
    """greedy: fewer requests, shorter / simpler fate list, while the implementation still contradicts the property in the same way"""
    from vlib.runner import diff_side
    import props.C07 as me
    kind = case["why"].split(":")[0]
    if case["input"].startswith("msg "):
        return msglib.shrink_msg(ctx, me, case, judge)
    best = case
    for _ in range(6):
        w = best["input"].split()
        fates = [] if w[10] == "-" else w[10].split(",")
        reqs = w[8].split(",")
        cands = []
        for k in range(len(fates)):
            cands.append(fates[:k] + fates[k + 1:])
            if fates[k] != "d0":
                cands.append(fates[:k] + ["d0"] + fates[k + 1:])
        lines = []
        for f in cands[:300]:
            ww = list(w); ww[10] = ",".join(f) or "-"; lines.append(" ".join(ww))
        if len(reqs) > 1:
            ww = list(w); ww[8] = ",".join(reqs[:-1]); lines.append(" ".join(ww))
        if w[9] != "-":
            ww = list(w); ww[9] = "-"; lines.append(" ".join(ww))
        found = None
        for cc in diff_side(ctx, me, lines):
            v = judge(ctx, cc)
            if v and v[0] == "spec" and v[1].split(":")[0] == kind and len(cc["input"]) < len(best["input"]):
                cc["why"] = v[1]
                found = cc
                break
        if not found:
            break
        best = found
    return best


# ---- T1X: the numerals of this property's models are tied to the current tree.  extract/consts2*.c + a source scan
# rewrite lean/CoapVerif/Generated/Consts2.lean on every check; Props/C07Consts.lean proves `<model numeral> =
# Generated.C2.<name>` (design/T1.md).  A changed macro / struct size / literal breaks one of these named obligations.
LEAN_MODULES = list(LEAN_MODULES) + ["CoapVerif.Props.C07Consts"]
REQUIRED_THEOREMS = list(REQUIRED_THEOREMS) + [
    "maxRetransmit_matches_code",
    "nstart_matches_code",
    "calcTimeout_numerals_matches_code",
    "calcTimeout_matches_code",
    "ackTimeout_matches_code",
]
TRUSTED_BASE = list(TRUSTED_BASE) + ["T1 extractors extract/consts2.c, consts2_net.c, consts2_opt.c and the source scan vlib/tables.py scan_consts2 (Generated/Consts2.lean)"]
_t1x_prev_extract = globals().get("extract")


def extract(ctx):
    from vlib import tables
    return (_t1x_prev_extract(ctx) if _t1x_prev_extract else []) + tables.extract_consts2()
