"""C05 — stream transports deliver the same messages however the byte stream is cut (DESIGN.md §4 C05)."""
import base64, hashlib, itertools, os
from vlib import common as C, coapgen as G

LEAN_MODULES = ["CoapVerif.Props.C05"]
NAMESPACE = "Coap.C05"
REQUIRED_THEOREMS = ["reader_eq_spec", "reader_segmentation_invariant", "oversize_closes", "no_message_stuck", "reader_no_oob"]
RULE = ("(byte stream, segmentation) pairs replayed into the real coap_read_session of a TCP / WebSocket session whose lowest "
        "layer is a chunk feeder: streams = 1-6 encoded messages (all four TCP length forms, tokens 0..extended, a share of "
        "field-mutated frames, oversize declared lengths, small configured maxima; WS: handshake + masked/unmasked frames with "
        "7/16/64-bit lengths); segmentations = every 2- and 3-cut placement on short streams, one byte per read, cuts around "
        "every header boundary, reads of exactly the 1472-byte buffer, random; non-trivial = the specification delivers at "
        "least one message or closes the session")
TRUSTED_BASE = ["Lean 4.33 kernel; axioms allowed: propext, Classical.choice, Quot.sound (audited per theorem each run)",
                "harness/stream.c (chunk feeder in place of the socket layer, dispatch hook, stack scribbling) + generators + string comparison",
                "M (CoapVerif/Model/StreamReader.lean) is a hand transcription of the TCP branch of coap_read_session; checked "
                "against the compiled code only on the cases run",
                "source hook coap_verif_dispatch_hook (guarded by COAP_VERIF_HOOKS) reports the PDUs entering coap_dispatch"]
ASSUMPTIONS = ["the transport returns the bytes of the stream in order, in arbitrary non-empty pieces, and never an error (a read "
               "error / EOF closes the session by design)",
               "malloc succeeds (allocation failure is C18)",
               "0 < coap_session_max_pdu_rcv_size(session) <= COAP_DEFAULT_MAX_PDU_RX_SIZE - 6 (true for every csm_max_message_size >= 64 "
               "that coap_context_set_csm_max_message_size accepts)",
               "compiled Lean definitions agree with the kernel's reading of them"]
SPEC_DECISIONS = ["D13 declared length = Len + token field, compared with coap_session_max_pdu_rcv_size",
                  "D14 reserved TKL 15: token field taken as empty, frame dropped, stream continues",
                  "D15 a complete frame that does not decode is dropped, the stream continues",
                  "D16 WS: one CoAP message per FIN binary frame"]
RUN_KW = {}


def harness(ctx):
    return C.build_harness("stream", C.build_libcoap())


def hx(b):
    return b.hex() if b else "-"


def cuts_str(cuts):
    return ",".join(str(c) for c in cuts) if cuts else "-"


def tcp_line(mx, stream, cuts):
    return "tcp %d %s %s" % (mx, hx(stream), cuts_str(cuts))


# ---------------------------------------------------------------------------------------------
# TCP streams
# ---------------------------------------------------------------------------------------------
def tcp_msg(rng, size_class=None, big=False):
    """one encoded CoAP-over-TCP message of a chosen Len form"""
    while True:
        typ, code, mid, token, opts, pl = G.gen_msg(rng, big=False, valid_len=True)
        c = size_class if size_class is not None else rng.choice([0, 0, 0, 1, 1, 2, 2 if not big else 3])
        if c == 0:
            opts = opts[:1] if sum(len(v) for _, v in opts[:1]) < 6 else []
            pl = G.rbytes(rng, rng.randint(0, 3)) if code else b""
        elif c == 1:
            pl = G.rbytes(rng, rng.randint(13, 250))
        elif c == 2:
            pl = G.rbytes(rng, rng.choice([269, 270, 300, 1000, 1472, 1500, 3000]))
        else:
            pl = G.rbytes(rng, rng.choice([65805, 65806, 66000, 70000]))
        if code == 0:
            token, opts, pl = b"", [], b""
        b = G.encode("tcp", 0, code, 0, token, opts, pl)
        return b


def oversize_header(rng, mx_rcv):
    """a header declaring more than the configured maximum (any Len form that can express it)"""
    want = mx_rcv + rng.choice([1, 2, 7, 100, 70000])
    tok = G.rbytes(rng, rng.choice([0, 0, 4, 8]))
    n = max(0, want - len(tok))
    tkl = len(tok)
    if n < 13: h = bytes([n << 4 | tkl])
    elif n < 269: h = bytes([13 << 4 | tkl, n - 13])
    elif n < 65805: h = bytes([14 << 4 | tkl, (n - 269) >> 8, (n - 269) & 255])
    else:
        m = min(n - 65805, 0xFFFFFFFF)
        h = bytes([15 << 4 | tkl, m >> 24 & 255, m >> 16 & 255, m >> 8 & 255, m & 255])
    return h + bytes([1]) + tok + G.rbytes(rng, rng.randint(0, 20))


def max_rcv(csm):
    m = csm or 8388864
    if m <= 2: return 0
    if m <= 14: return m - 2
    if m <= 271: return m - 3
    if m <= 65808: return m - 4
    return m - 6


def header_boundaries(stream):
    """offsets just inside / at the end of every header field of a well-formed stream prefix"""
    out = set()
    i = 0
    n = len(stream)
    while i < n:
        b0 = stream[i]
        L, T = b0 >> 4, b0 & 15
        el = 0 if L < 13 else 1 if L == 13 else 2 if L == 14 else 4
        te = 1 if T == 13 else 2 if T == 14 else 0
        H = 2 + el + te
        for k in range(1, H + 2):
            out.add(i + k)
        if i + H > n:
            break
        ln = L if L < 13 else stream[i + 1] + 13 if L == 13 else (stream[i + 1] << 8 | stream[i + 2]) + 269 if L == 14 else \
            int.from_bytes(stream[i + 1:i + 5], "big") + 65805
        tk = T if T < 13 else stream[i + 2 + el] + 13 + 1 if T == 13 else (stream[i + 2 + el] << 8 | stream[i + 3 + el]) + 269 + 2 if T == 14 else 0
        tot = 2 + el + ln + tk
        out.add(i + tot - 1)
        i += tot
    return sorted(c for c in out if 0 < c < n)


def seg_random(rng, n):
    k = rng.choice([1, 1, 2, 3, 5, 8, 20])
    k = min(k, max(0, n - 1))
    return sorted(rng.sample(range(1, n), k)) if k else []


def segmentations(rng, stream, exhaustive_upto, budget):
    """list of cut lists for one stream"""
    n = len(stream)
    segs = [[]]
    if n >= 2:
        segs.append(list(range(1, n)) if n <= 4000 else sorted(rng.sample(range(1, n), 3000)))  # one byte per read
        hb = header_boundaries(stream)
        segs.append(hb)
        for c in hb[:40]:
            segs.append([c])
        for _ in range(3):
            segs.append(sorted(set(rng.sample(hb, min(len(hb), rng.randint(1, 4))))) if hb else [])
    if n > 1472:
        # reads that return exactly the buffer size, and one byte either side
        for a in (1472, 2944):
            for d in (-1, 0, 1):
                for start in (0, rng.randint(1, 50)):
                    cs = [c for c in (start, start + a + d) if 0 < c < n]
                    segs.append(sorted(set(cs)))
    if n <= exhaustive_upto:
        for k in (1, 2, 3):
            for cs in itertools.combinations(range(1, n), k):
                segs.append(list(cs))
    else:
        for _ in range(budget):
            segs.append(seg_random(rng, n))
    return segs


def gen_tcp(ctx, n_streams, exhaustive_upto, n_exh):
    rng = ctx.rng
    out = []
    exh = 0
    for i in range(n_streams):
        c = rng.random()
        csm = 0
        if c < 0.12:
            csm = rng.choice([64, 100, 271, 272, 1152, 65808, 65809])
        short = exh < n_exh and rng.random() < 0.5
        k = rng.choice([1, 2, 2, 3, 4, 6]) if not short else rng.choice([1, 2, 3])
        msgs = []
        for j in range(k):
            big = (ctx.thorough() and rng.random() < 0.03) or rng.random() < 0.001
            m = tcp_msg(rng, 0 if short else None, big=big)
            if rng.random() < 0.12:
                m = G.mutate(rng, m)
            msgs.append(m)
        if rng.random() < 0.12:
            msgs.insert(rng.randrange(len(msgs) + 1), oversize_header(rng, max_rcv(csm)))
        if rng.random() < 0.15:   # incomplete tail
            t = tcp_msg(rng)
            msgs.append(t[:rng.randrange(len(t))])
        stream = b"".join(msgs)
        if short and len(stream) > exhaustive_upto:
            stream = stream[:exhaustive_upto]
        is_exh = len(stream) <= exhaustive_upto and exh < n_exh and len(stream) >= 4
        if is_exh:
            exh += 1
            ctx.cov["exhaustive_streams"] = ctx.cov.get("exhaustive_streams", 0) + 1
        for cs in segmentations(rng, stream, exhaustive_upto if is_exh else 0, 6):
            out.append(tcp_line(csm, stream, cs))
    return out


def generate(ctx, escalate=False):
    if ctx.thorough():
        lines = gen_tcp(ctx, 6000, 40, 60)
    else:
        lines = gen_tcp(ctx, 1200, 22, 8)
    if escalate:
        lines += gen_tcp(ctx, 1500, 22, 8)
    ctx.cov["exhaustive"] = "every 1-, 2- and 3-cut placement of %d streams" % ctx.cov.get("exhaustive_streams", 0)
    return ["consts"] + lines


# ---------------------------------------------------------------------------------------------
# verdicts
# ---------------------------------------------------------------------------------------------
def short(s):
    return s if s is None or len(s) < 200 else s[:190] + "…"


def judge(ctx, c):
    i, m, s = c["impl"], c["model"], c["spec"]
    if c["input"] == "consts":
        return None if i == m else ("tie", "constants of the code %s differ from the model's %s" % (i, m))
    if s is not None and i != s:
        return ("spec", "the implementation hands on %s but the bytes of the stream contain %s" % (short(i), short(s)))
    if i != m:
        return ("tie", "implementation %s but model M says %s" % (short(i), short(m)))
    return None


def nontrivial(c):
    s = c["spec"] or ""
    return not s.startswith("n=0 end=open")


def classify(c):
    w = c["input"].split()
    if w[0] == "consts":
        return "consts"
    s = c["spec"] or ""
    ncuts = 0 if w[3] == "-" else w[3].count(",") + 1
    return "%s:%s:%s" % (w[0], "closed" if "end=closed" in s else "open", "0cuts" if ncuts == 0 else "1-3cuts" if ncuts <= 3 else "many")


def known(ctx, c):
    return None


def search(ctx, tie_breaks, proof):
    """more segmentations of the streams on which the correspondence broke"""
    rng = ctx.rng
    out = []
    for c in tie_breaks[:30]:
        w = c["input"].split()
        if w[0] != "tcp":
            continue
        stream = bytes.fromhex(w[2]) if w[2] != "-" else b""
        for cs in segmentations(rng, stream, 16, 100):
            out.append(tcp_line(int(w[1]), stream, cs))
    out += gen_tcp(ctx, 800, 22, 4)
    return out


def shrink(ctx, case):
    """drop cuts, then trailing bytes, while the implementation still contradicts the specification"""
    from vlib.runner import diff_side
    import props.C05 as me
    w = case["input"].split()
    if w[0] != "tcp":
        return case
    stream = bytes.fromhex(w[2]) if w[2] != "-" else b""
    cuts = [] if w[3] == "-" else [int(x) for x in w[3].split(",")]
    best = case
    for _ in range(8):
        cands = []
        for i in range(len(cuts)):
            cands.append((stream, cuts[:i] + cuts[i + 1:]))
        for cut_at in sorted({len(stream) - 1, len(stream) // 2, (cuts[-1] + 1) if cuts else 0}):
            if 0 < cut_at < len(stream):
                cands.append((stream[:cut_at], [c for c in cuts if c < cut_at]))
        cands = cands[:300]
        if not cands:
            break
        lines = [tcp_line(int(w[1]), s, cs) for s, cs in cands]
        hit = None
        for (s, cs), cc in zip(cands, diff_side(ctx, me, lines)):
            v = judge(ctx, cc)
            if v and v[0] == "spec" and not known(ctx, cc):
                cc["why"] = v[1]; hit = (s, cs, cc)
                break
        if not hit:
            break
        stream, cuts, best = hit
    return best
