"""C05 — stream transports deliver the same messages however the byte stream is cut (DESIGN.md §4 C05)."""
import base64, hashlib, itertools, os
from vlib import common as C, coapgen as G, wsgen as W

MANIFEST = {
    "text": "Lean theorems about the transcription M of the TCP/TLS branch of coap_read_session: reader_eq_spec (for every list of "
            "chunks the messages reaching coap_dispatch, their order, whether the session is closed and the reader's final state equal "
            "what the RFC 8323/8974 framing specification S computes from the concatenated bytes), hence reader_segmentation_invariant / "
            "reader_cut_invariant for all streams and all cut placements, oversize_closes, no_message_stuck, reader_no_oob. WebSocket "
            "(S_ws = HTTP upgrade lines + RFC 6455 frames, M_ws = coap_ws_rd_http_header / coap_ws_read / the WS loop of "
            "coap_read_session): frame phase at full strength - ws_frames_eq_spec (from every reader state of the invariant WsInv "
            "with the handshake done, for every list of chunks: messages, order, closed-or-not = S_ws on pending ++ concatenated "
            "bytes), ws_frames_segmentation_invariant, ws_frames_cut_invariant, ws_frames_no_message_stuck, ws_frames_no_oob; for every "
            "whole connection incl. the HTTP upgrade at full strength, for EVERY byte stream and every list of chunks, no hypothesis "
            "on the bytes: ws_reader_eq_spec (messages, order, up, closed-or-not = S_ws on the concatenated bytes), "
            "ws_reader_segmentation_invariant, ws_reader_cut_invariant, ws_no_message_stuck, ws_reader_no_oob (never outside "
            "http_hdr[160] / rd_header[14], never stalled), ws_reader_final_state (an open session holds at most a proper prefix of "
            "one frame or an unfinished header line). NUL bytes in the header block are part of S_ws (D20: a line with a NUL in "
            "front of its LF has no end, as for strchr); a header line starting with its separator, which libcoap took for the "
            "end of the header block, is refused since fix 55210fa (ws_blank_led_line_refused). coap_ws_close's draining loop "
            "(model closeDrain, tied by the wsclose lines): ws_close_drain_bounded (at most 5 coap_ws_read calls from every reader "
            "state for every pending byte string), ws_close_drain_idle, ws_close_drain_recv, ws_read_data_fits; round 3: ws_read_fits "
            "(header and data part of coap_ws_read never hand back more than the caller's buffer holds: every reader state, every "
            "buffer size, every pending byte string), ws_read_keeps_ok / ws_read_data_dest_in_bounds (hdr_ofs <= 14 and data_ofs <= "
            "data_size are kept, so neither unsigned difference wraps and the read destination ends inside the buffer), "
            "ws_read_next_frame_terminates (the goto next_frame loop of one call), ws_close_drain_fits / ws_close_drain_in_bounds "
            "(every coap_ws_read call of the drain stays inside buf[100] and rd_header[14]), ws_close_terminates (at most 5 rounds, "
            "every call terminating: coap_ws_close neither aborts nor loops for ever on any input), and what the drain does when it "
            "cannot see the peer's Close frame: ws_close_drain_socket_empty / ws_close_drain_close_unseen (frames in the same header "
            "read as the Close frame: the loop only waits), ws_close_drain_oversize_stuck (after 1009: five calls returning -1, nothing "
            "read), ws_close_drain_refused_stuck (after 1002/1003: the same header is refused again), ws_close_drain_rounds (exactly 5 "
            "select() rounds unless the Close frame is seen; rounds and calls are compared with the code, select() being wrapped in "
            "the harness), ws_read_closed_cases / ws_self_close_classified (the reader's own coap_ws_close - model selfClose, `wsself` "
            "lines - either has recv_close set and does not drain, or drains from a refused header / frame and cannot progress), "
            "ws_frames_states_ok / ws_reader_states_ok (every state an open session is left in, after every byte stream and "
            "segmentation, satisfies the hypothesis RdOk of the in-bounds theorems). Ten defects found on the way are "
            "fixed in /repo (1 TCP, 9 WebSocket).",
    "note": "Trusted: Lean kernel (+ propext, Classical.choice, Quot.sound), harness/stream.c (chunk feeder replacing the socket layer, "
            "dispatch hook 2de516c), generators, the hand transcriptions M / M_ws (checked against the compiled code on the cases run "
            "only). Which upgrade header lines are acceptable is a "
            "parameter of S_ws (D17, instantiated with the per-line checks of the code); SHA-1/base64 are oracles.",
    "design_ref": "DESIGN.md §4 C05, design/C05.md",
}
LEAN_MODULES = ["CoapVerif.Props.C05"]
NAMESPACE = "Coap.C05"
REQUIRED_THEOREMS = ["reader_eq_spec", "reader_segmentation_invariant", "reader_cut_invariant", "oversize_closes", "no_message_stuck",
                     "reader_no_oob", "spec_delivers_complete_frame", "ws_long_line_closes",
                     "ws_frames_eq_spec", "ws_frames_segmentation_invariant", "ws_frames_cut_invariant",
                     "ws_frames_no_message_stuck", "ws_frames_no_oob", "ws_init_inv", "ws_up_inv",
                     "ws_reader_eq_spec", "ws_reader_segmentation_invariant", "ws_reader_cut_invariant",
                     "ws_no_message_stuck", "ws_blank_led_line_refused",
                     "ws_close_drain_bounded", "ws_close_drain_idle", "ws_close_drain_recv", "ws_read_data_fits",
                     "ws_reader_no_oob", "ws_reader_final_state",
                     "ws_read_fits", "ws_read_keeps_ok", "ws_read_data_dest_in_bounds", "ws_read_next_frame_terminates",
                     "ws_close_drain_fits", "ws_close_drain_in_bounds", "ws_close_terminates", "ws_close_drain_rounds", "ws_frames_states_ok", "ws_reader_states_ok",
                     "ws_read_closed_cases", "ws_self_close_classified",
                     "ws_close_drain_socket_empty", "ws_close_drain_close_unseen", "ws_close_drain_oversize_stuck",
                     "ws_close_drain_refused_stuck"]
RULE = ("(byte stream, segmentation) pairs replayed into the real coap_read_session of a TCP / WebSocket session whose lowest "
        "layer is a chunk feeder: streams = 1-6 encoded messages (all four TCP length forms, tokens 0..extended, a share of "
        "field-mutated frames, oversize declared lengths, small configured maxima; WS: handshake + masked/unmasked frames with "
        "7/16/64-bit lengths; header blocks with NUL bytes, blank-led lines, binary bytes, odd line ends, frames "
        "inside an unfinished block); segmentations = every 2- and 3-cut placement on short streams, one byte per read, cuts around "
        "every header boundary, reads of exactly the 1472-byte buffer, random; wsclose: the application closes with frames / Close / "
        "Ping / 90-1473-byte frames pending; wsself: one chunk on which the reader refuses a frame (1002/1003/1009) or receives a "
        "Close frame with further bytes of the chunk pending; non-trivial = the specification delivers at "
        "least one message or closes the session")
TRUSTED_BASE = ["Lean 4.33 kernel; axioms allowed: propext, Classical.choice, Quot.sound (audited per theorem each run)",
                "harness/stream.c (chunk feeder in place of the socket layer, dispatch hook, stack scribbling) + generators + string comparison",
                "M (CoapVerif/Model/StreamReader.lean) and M_ws (Model/WsReader.lean) are hand transcriptions of the TCP / WebSocket "
                "readers; checked against the compiled code only on the cases run",
                "WebSocket: SHA-1/base64 of the accept hash and base64 decoding of the key are oracles; coap_ws_close's draining "
                "(model closeDrain / drainRounds / selfClose) is tied to the code by the `wsclose` and `wsself` lines (recv_close, bytes "
                "left unread, select() rounds, coap_ws_read calls); select() on the socket is taken to report readable exactly "
                "while bytes are pending (the harness keeps the real fd in that state and wraps select() only to count)",
                "source hook coap_verif_dispatch_hook (guarded by COAP_VERIF_HOOKS) reports the PDUs entering coap_dispatch"]
ASSUMPTIONS = ["the transport returns the bytes of the stream in order, in arbitrary non-empty pieces, and never an error (a read "
               "error / EOF closes the session by design)",
               "malloc succeeds (allocation failure is C18)",
               "0 < coap_session_max_pdu_rcv_size(session) <= COAP_DEFAULT_MAX_PDU_RX_SIZE - 6 (true for every csm_max_message_size >= 64 "
               "that coap_context_set_csm_max_message_size accepts)",
               "the event loop is level-triggered: coap_read_session is called again while bytes are available",
               "which WebSocket upgrade header lines are acceptable is a parameter of S (D17)",
               "compiled Lean definitions agree with the kernel's reading of them"]
SPEC_DECISIONS = ["D13 declared length = Len + token field, compared with coap_session_max_pdu_rcv_size",
                  "D14 reserved TKL 15: token field taken as empty, frame dropped, stream continues",
                  "D15 a complete frame that does not decode is dropped, the stream continues",
                  "D16 WS: one CoAP message per binary frame, FIN/RSV ignored, other opcodes close",
                  "D17 acceptance of upgrade header lines is a parameter of S", "D18 over-long line: more than 158 bytes before LF",
                  "D19 frame above 1472 bytes closes; empty frame carries no message",
                  "D20 a NUL byte in a handshake line: the line has no end (bytes behind the NUL, LF included, belong to it); the "
                  "session closes once 159 bytes of it have arrived (RFC 9110 5.5 allows rejecting)"]
RUN_KW = {}


def harness(ctx):
    return C.build_harness("stream", C.build_libcoap(), wraps=["select"])     # select(): rounds of coap_ws_close's drain loop


def hx(b):
    return b.hex() if b else "-"


def cuts_str(cuts):
    return ",".join(str(c) for c in cuts) if cuts else "-"


def tcp_line(mx, stream, cuts):
    return "tcp %d %s %s" % (mx, hx(stream), cuts_str(cuts))


# ---------------------------------------------------------------------------------------------
# TCP streams
# ---------------------------------------------------------------------------------------------
def tcp_msg(rng, size_class=None, big=False):
    """one encoded CoAP-over-TCP message of a chosen Len form"""
    while True:
        typ, code, mid, token, opts, pl = G.gen_msg(rng, big=False, valid_len=True)
        c = size_class if size_class is not None else rng.choice([0, 0, 0, 1, 1, 2, 2 if not big else 3])
        if c == 0:
            opts = opts[:1] if sum(len(v) for _, v in opts[:1]) < 6 else []
            pl = G.rbytes(rng, rng.randint(0, 3)) if code else b""
        elif c == 1:
            pl = G.rbytes(rng, rng.randint(13, 250))
        elif c == 2:
            pl = G.rbytes(rng, rng.choice([269, 270, 300, 1000, 1472, 1500, 3000]))
        else:
            pl = G.rbytes(rng, rng.choice([65805, 65806, 66000, 70000]))
        if code == 0:
            token, opts, pl = b"", [], b""
        b = G.encode("tcp", 0, code, 0, token, opts, pl)
        return b


def oversize_header(rng, mx_rcv):
    """a header declaring more than the configured maximum (any Len form that can express it)"""
    want = mx_rcv + rng.choice([1, 2, 7, 100, 70000])
    tok = G.rbytes(rng, rng.choice([0, 0, 4, 8]))
    n = max(0, want - len(tok))
    tkl = len(tok)
    if n < 13: h = bytes([n << 4 | tkl])
    elif n < 269: h = bytes([13 << 4 | tkl, n - 13])
    elif n < 65805: h = bytes([14 << 4 | tkl, (n - 269) >> 8, (n - 269) & 255])
    else:
        m = min(n - 65805, 0xFFFFFFFF)
        h = bytes([15 << 4 | tkl, m >> 24 & 255, m >> 16 & 255, m >> 8 & 255, m & 255])
    return h + bytes([1]) + tok + G.rbytes(rng, rng.randint(0, 20))


def max_rcv(csm):
    m = csm or 8388864
    if m <= 2: return 0
    if m <= 14: return m - 2
    if m <= 271: return m - 3
    if m <= 65808: return m - 4
    return m - 6


def header_boundaries(stream):
    """offsets just inside / at the end of every header field of a well-formed stream prefix"""
    out = set()
    i = 0
    n = len(stream)
    while i < n:
        b0 = stream[i]
        L, T = b0 >> 4, b0 & 15
        el = 0 if L < 13 else 1 if L == 13 else 2 if L == 14 else 4
        te = 1 if T == 13 else 2 if T == 14 else 0
        H = 2 + el + te
        for k in range(1, H + 2):
            out.add(i + k)
        if i + H > n:
            break
        ln = L if L < 13 else stream[i + 1] + 13 if L == 13 else (stream[i + 1] << 8 | stream[i + 2]) + 269 if L == 14 else \
            int.from_bytes(stream[i + 1:i + 5], "big") + 65805
        tk = T if T < 13 else stream[i + 2 + el] + 13 + 1 if T == 13 else (stream[i + 2 + el] << 8 | stream[i + 3 + el]) + 269 + 2 if T == 14 else 0
        tot = 2 + el + ln + tk
        out.add(i + tot - 1)
        i += tot
    return sorted(c for c in out if 0 < c < n)


def seg_random(rng, n):
    k = rng.choice([1, 1, 2, 3, 5, 8, 20])
    k = min(k, max(0, n - 1))
    return sorted(rng.sample(range(1, n), k)) if k else []


def segmentations(rng, stream, exhaustive_upto, budget):
    """list of cut lists for one stream"""
    n = len(stream)
    segs = [[]]
    if n >= 2:
        segs.append(list(range(1, n)) if n <= 4000 else sorted(rng.sample(range(1, n), 3000)))  # one byte per read
        hb = header_boundaries(stream)
        segs.append(hb)
        for c in hb[:40]:
            segs.append([c])
        for _ in range(3):
            segs.append(sorted(set(rng.sample(hb, min(len(hb), rng.randint(1, 4))))) if hb else [])
    if n > 1472:
        # reads that return exactly the buffer size, and one byte either side
        for a in (1472, 2944):
            for d in (-1, 0, 1):
                for start in (0, rng.randint(1, 50)):
                    cs = [c for c in (start, start + a + d) if 0 < c < n]
                    segs.append(sorted(set(cs)))
    if n <= exhaustive_upto:
        for k in (1, 2, 3):
            for cs in itertools.combinations(range(1, n), k):
                segs.append(list(cs))
    else:
        for _ in range(budget):
            segs.append(seg_random(rng, n))
    return segs


def tcp_frame_declaring(rng, declared, tkl_bytes, complete=True):
    """a frame whose header declares exactly `declared` bytes after the Code byte (token field included)"""
    tok = G.rbytes(rng, tkl_bytes)
    n = declared - len(tok)
    assert n >= 0
    if n < 13: h = bytes([n << 4 | len(tok)])
    elif n < 269: h = bytes([13 << 4 | len(tok), n - 13])
    elif n < 65805: h = bytes([14 << 4 | len(tok), (n - 269) >> 8, (n - 269) & 255])
    else:
        m = n - 65805
        h = bytes([15 << 4 | len(tok), m >> 24 & 255, m >> 16 & 255, m >> 8 & 255, m & 255])
    body = (b"\xff" + G.rbytes(rng, n - 1)) if n >= 2 else bytes([0x00] * n)   # payload marker + payload / a zero-length option
    f = h + bytes([1]) + tok + body
    return f if complete else f[:len(h) + 1 + len(tok) + min(n, 5)]


def gen_tcp_cap_boundary(ctx):
    """declared lengths on both sides of the configured maximum, for every size class of the maximum"""
    rng = ctx.rng
    out = []
    for csm in (64, 100, 271, 272, 1152, 65808, 65809):
        mr = max_rcv(csm)
        for d in (mr - 1, mr, mr + 1, mr + 2):
            for tkl in (0, 4):
                f = tcp_frame_declaring(rng, d, tkl)
                stream = tcp_msg(rng, 0) + f + tcp_msg(rng, 0)
                n = len(stream)
                first = len(stream) - len(f) - 0
                hb = [c for c in header_boundaries(stream) if c < n][:12]
                for cs in ([], hb, [c for c in range(1, min(n, 40))], seg_random(rng, n)):
                    out.append(tcp_line(csm, stream, cs))
    return out


def gen_tcp(ctx, n_streams, exhaustive_upto, n_exh):
    rng = ctx.rng
    out = []
    exh = 0
    for i in range(n_streams):
        c = rng.random()
        csm = 0
        if c < 0.12:
            csm = rng.choice([64, 100, 271, 272, 1152, 65808, 65809])
        short = exh < n_exh and rng.random() < 0.5
        k = rng.choice([1, 2, 2, 3, 4, 6]) if not short else rng.choice([1, 2, 3])
        msgs = []
        for j in range(k):
            big = (ctx.thorough() and rng.random() < 0.03) or rng.random() < 0.001
            m = tcp_msg(rng, 0 if short else None, big=big)
            if rng.random() < 0.12:
                m = G.mutate(rng, m)
            msgs.append(m)
        if rng.random() < 0.12:
            msgs.insert(rng.randrange(len(msgs) + 1), oversize_header(rng, max_rcv(csm)))
        if rng.random() < 0.15:   # incomplete tail
            t = tcp_msg(rng)
            msgs.append(t[:rng.randrange(len(t))])
        stream = b"".join(msgs)
        if short and len(stream) > exhaustive_upto:
            stream = stream[:exhaustive_upto]
        is_exh = len(stream) <= exhaustive_upto and exh < n_exh and len(stream) >= 4
        if is_exh:
            exh += 1
            ctx.cov["exhaustive_streams"] = ctx.cov.get("exhaustive_streams", 0) + 1
        for cs in segmentations(rng, stream, exhaustive_upto if is_exh else 0, 6):
            out.append(tcp_line(csm, stream, cs))
    return out


# ---------------------------------------------------------------------------------------------
# WebSocket streams
# ---------------------------------------------------------------------------------------------
def ws_line(mode, stream, cuts):
    return "ws %s %s %s" % (mode, hx(stream), cuts_str(cuts))


def ws_msg(rng, cls=None):
    """payload of one binary frame: a CoAP-over-WS message of a chosen size class"""
    c = cls if cls is not None else rng.choice([0, 0, 0, 1, 2, 3])
    typ, code, mid, token, opts, pl = G.gen_msg(rng, big=False, valid_len=True)
    if c == 0:      # tiny: fits, with its frame header, in the 14-byte header read
        token = token[:rng.choice([0, 0, 1, 2, 4])]
        opts, pl = [], (G.rbytes(rng, rng.randint(1, 3)) if rng.random() < 0.3 and code else b"")
    elif c == 1:
        opts = opts[:2]; pl = G.rbytes(rng, rng.randint(0, 60)) if code else b""
    elif c == 2:
        pl = G.rbytes(rng, rng.choice([100, 125, 126, 127, 300, 1000, 1400]))
    else:
        pl = G.rbytes(rng, rng.choice([1460, 1466, 1470, 1472, 1473, 1500, 70000]))   # around the 1472-byte buffer
    if code == 0:
        token, opts, pl = b"", [], b""
    return G.encode("ws", 0, code, 0, token, opts, pl)


def ws_frame(rng, mode, payload):
    masked = mode == "s"
    n = len(payload)
    forms = [f for f in (7, 16, 64) if (f != 7 or n <= 125) and (f != 16 or n <= 0xFFFF)]
    lf = rng.choice(forms) if rng.random() < 0.3 else None
    return W.frame(payload, masked, lenform=lf, mask=G.rbytes(rng, 4) if masked else None)


def ws_special(rng, mode):
    """frames around the edges of the framing rules"""
    masked = mode == "s"
    c = rng.randrange(9)
    if c == 0: return W.frame(b"", masked)                                    # empty frame
    if c == 1: return W.frame(G.rbytes(rng, 1), masked)                       # 1-byte frame (no CoAP message)
    if c == 2: return W.frame(bytes([0, rng.choice([0, 1, 0xe2, 0xe3])]), masked)   # 2-byte message
    if c == 3: return W.frame(b"\x03\xe8", masked, opcode=W.OP_CLOSE)
    if c == 4: return W.frame(b"", masked, opcode=rng.choice([W.OP_PING, W.OP_PONG, W.OP_TEXT, W.OP_CONT]))
    if c == 5: return W.frame(ws_msg(rng, 0), not masked)                     # wrong masking for the role
    if c == 6: return W.frame(ws_msg(rng, 0), masked, fin=False)
    if c == 7: return W.frame(b"", masked, lenform=64, declared_len=rng.choice([1473, 2 ** 31, 2 ** 63, 2 ** 64 - 1]))
    return W.frame(bytes([0x01, 0x45]), masked)                               # TKL 1 without token: malformed


def ws_handshake(rng, mode):
    """(bytes, kind)"""
    c = rng.random()
    if c < 0.70:
        return W.handshake(mode, rng, rng.choice([0, 0, 1, 2, 3])), "ok"
    if c < 0.85:
        n = rng.choice([140, 150, 155, 156, 157, 158, 159, 160, 161, 170, 200, 400])
        return W.long_line_handshake(mode, n, newline=rng.random() < 0.6), "long"
    if c < 0.93:
        h = W.handshake(mode, rng, 0)
        return h[:rng.randrange(len(h))], "trunc"
    ls = W._lines(mode)
    k = rng.randrange(5)
    if k == 4:      # first line without any separator (client: the status line is just "HTTP/1.1")
        ls[0] = ls[0].split(" ")[0]
    elif k == 0: ls[0] = ls[0].replace("1.1", "1.0")
    elif k == 1: del ls[rng.randrange(1, len(ls))]
    elif k == 2: ls.insert(rng.randrange(1, len(ls) + 1), ls[rng.randrange(1, len(ls))])
    else:
        # not the key line: base64 decoding of the key is an oracle of the model (only well-formed keys are generated)
        idx = [i for i in range(1, len(ls)) if not ls[i].startswith("Sec-WebSocket-Key")]
        ls[rng.choice(idx)] += "x"
    return ("\r\n".join(ls) + "\r\n\r\n").encode(), "bad"


def ws_frame_boundaries(frames_bytes, base):
    out = set()
    pos = base
    for f in frames_bytes:
        for k in range(1, min(len(f), 15) + 1):
            out.add(pos + k)
        out.add(pos + len(f) - 1)
        pos += len(f)
    return out


def gen_ws(ctx, n_streams, exhaustive_upto, n_exh):
    rng = ctx.rng
    out = []
    exh = 0
    for i in range(n_streams):
        mode = rng.choice(["c", "s"])
        hs, kind = ws_handshake(rng, mode)
        tiny = rng.random() < 0.4
        # binary frame bytes after an unfinished header block (NUL bytes in "lines"): see gen_ws_hostile_hs
        k = rng.choice([0, 1, 2, 3, 3, 4, 6]) if kind == "ok" else 0
        frames = []
        for j in range(k):
            if rng.random() < 0.15:
                frames.append(ws_special(rng, mode))
            else:
                frames.append(ws_frame(rng, mode, ws_msg(rng, 0 if tiny else None)))
        if frames and rng.random() < 0.15:
            frames[-1] = frames[-1][:rng.randrange(1, len(frames[-1]) + 1)]      # stream ends inside a frame
        body = b"".join(frames)
        stream = hs + body
        n, h = len(stream), len(hs)
        segs = [[], list(range(1, n)) if n <= 4000 else sorted(rng.sample(range(1, n), 3000))]
        if kind == "ok":
            segs.append([h] if 0 < h < n else [])
            fb = sorted(c for c in ws_frame_boundaries(frames, h) if 0 < c < n)
            segs.append(sorted(set([h] + fb)) if h < n else fb)
            for c in fb[:30]:
                segs.append(sorted({h, c}) if h < n else [c])
            for _ in range(4):
                segs.append(sorted(set(rng.sample(fb, min(len(fb), rng.randint(1, 4))))) if fb else [])
            # handshake cut anywhere, frames whole
            for _ in range(4):
                c = rng.randrange(1, h)
                segs.append([c] + ([h] if rng.random() < 0.5 and h < n else []))
            if 0 < len(body) <= exhaustive_upto and exh < n_exh:
                exh += 1
                ctx.cov["ws_exhaustive_streams"] = ctx.cov.get("ws_exhaustive_streams", 0) + 1
                pos = list(range(h, n))
                for kk in (1, 2, 3):
                    for cs in itertools.combinations(pos, kk):
                        segs.append([c for c in cs if 0 < c < n])
        else:
            # over-long / truncated / refused handshakes: cut anywhere
            for _ in range(10):
                segs.append(seg_random(rng, n))
            for c in (h - 2, h - 1, 14, 28, 145, 146, 158, 159, 160):
                if 0 < c < n:
                    segs.append([c])
        for _ in range(4):
            segs.append(seg_random(rng, n))
        seen = set()
        for cs in segs:
            t = tuple(cs)
            if t in seen:
                continue
            seen.add(t)
            out.append(ws_line(mode, stream, cs))
    return out


def gen_ws_empty_runs(ctx, n_streams):
    """long runs of frames without data in front of a message: `goto next_frame` in coap_ws_read is not bounded
    (the model once stopped after 16 such frames in one read; the WS correspondence proof found it)"""
    rng = ctx.rng
    out = []
    for i in range(n_streams):
        mode = rng.choice(["c", "s"])
        hs = W.handshake(mode, rng, 0)
        masked = mode == "s"
        frames = []
        for blk in range(rng.choice([1, 1, 2])):
            frames += [W.frame(b"", masked, lenform=rng.choice([None, None, None, 16, 64]),
                               mask=G.rbytes(rng, 4) if masked else None)
                       for _ in range(rng.choice([7, 14, 15, 16, 17, 18, 25, 40]))]
            frames.append(ws_frame(rng, mode, ws_msg(rng, 0)))
        body = b"".join(frames)
        stream = hs + body
        n, h = len(stream), len(hs)
        segs = [[], [h], [h - 3], [h, h + 2 * rng.randrange(1, 20) + rng.randrange(2)], seg_random(rng, n),
                sorted(set(rng.sample(range(h, n), min(n - h, 3))))]
        seen = set()
        for cs in segs:
            cs = [c for c in cs if 0 < c < n]
            if tuple(cs) not in seen:
                seen.add(tuple(cs))
                out.append(ws_line(mode, stream, cs))
    return out


def gen_ws_hostile_hs(ctx, n_streams):
    """header blocks outside plain HTTP: NUL bytes (C strings: strchr stops there, SPEC DECISION D20), header lines that
    start with their separator (once taken for the end of the block: fix 55210fa), binary bytes / frame bytes inside
    an unfinished header block, odd line ends, NUL-carrying lines around the 159-byte limit.
    Not touched, because the model has oracles there: the value of the Sec-WebSocket-Key line (base64 decoding) and the
    client's status line (atoi) get NUL bytes only (a line with a NUL is never handed to the per-line checks)."""
    rng = ctx.rng
    out = []
    for i in range(n_streams):
        mode = rng.choice(["c", "s"])
        ls = [l.encode() for l in W._lines(mode)]
        eols = [b"\r\n"] * len(ls)
        end = b"\r\n"
        marks = []               # stream offsets worth cutting around
        frozen = lambda j: j == 0 or ls[j].startswith(b"Sec-WebSocket-Key")
        for _ in range(rng.choice([1, 1, 1, 2, 3])):
            c = rng.randrange(8)
            if c == 0:      # a line that starts with its separator, anywhere (also first, also last before the empty line)
                j = rng.randrange(0, len(ls) + 1)
                l = rng.choice([b" x", b"\tfoo", b" Host: x", b"  ", b" ", b"\t", b"\tfoo bar", b" \tUpgrade: websocket"])
                ls.insert(j, l); eols.insert(j, b"\r\n")
            elif c == 1:    # NUL somewhere in a line
                j = rng.randrange(len(ls))
                k = rng.randrange(len(ls[j]) + 1)
                ls[j] = ls[j][:k] + b"\x00" + ls[j][k:]
            elif c == 2:    # a byte that matters to a line splitter, in a line without oracle
                idx = [j for j in range(len(ls)) if not frozen(j)]
                if idx:
                    j = rng.choice(idx)
                    k = rng.randrange(len(ls[j]) + 1)
                    ls[j] = ls[j][:k] + bytes([rng.choice([0, 9, 10, 13, 32, 0x7f, 0x80, 0xff, rng.randrange(256)])]) + ls[j][k:]
            elif c == 3:    # odd line end
                j = rng.randrange(len(ls))
                eols[j] = b"\n" if frozen(j) else rng.choice([b"\n", b"\r\r\n", b"\r", b"\n\r", b"\x00\r\n", b"\r\x00\n"])
            elif c == 4:    # an unknown header whose "line" carries a NUL and reaches the neighbourhood of the limit
                n = rng.choice([100, 150, 155, 156, 157, 158, 159, 160, 161, 170, 300])
                body = bytearray(rng.choice([65, 66, 10, 13, 32, 0, 9]) for _ in range(n))
                body[rng.randrange(0, min(n, 8))] = 0
                j = rng.randrange(1, len(ls) + 1)
                ls.insert(j, b"X-Z: " + bytes(body)); eols.insert(j, rng.choice([b"\r\n", b""]))
            elif c == 5:    # the block is not finished: frames follow directly / after a cut-off line without oracle
                j = rng.randrange(1, len(ls) + 1)
                ls, eols = ls[:j], eols[:j]
                end = b""
                if not frozen(j - 1) and rng.random() < 0.5:
                    ls[j - 1] = ls[j - 1][:rng.randrange(len(ls[j - 1]) + 1)]; eols[j - 1] = b""
            elif c == 6:    # the empty line itself
                end = rng.choice([b"\n", b"\r\r\n", b"\x00\r\n", b"\r\x00\n", b" \r\n", b"\t\n", b"\r"])
            else:           # NUL right behind a line end (first byte of the next line)
                j = rng.randrange(len(ls))
                if j + 1 < len(ls):
                    ls[j + 1] = b"\x00" + ls[j + 1]
                else:
                    end = b"\x00" + end
        hs = b"".join(l + e for l, e in zip(ls, eols)) + end
        masked = mode == "s"
        frames = [ws_frame(rng, mode, ws_msg(rng, 0)) if rng.random() < 0.8 else ws_special(rng, mode)
                  for _ in range(rng.choice([0, 1, 1, 2, 3]))]
        if rng.random() < 0.3:
            frames.append(b"\r\n" * rng.choice([1, 2, 40, 90]))      # more "lines" behind
        stream = hs + b"".join(frames)
        n, h = len(stream), len(hs)
        pos = 0
        for l, e in zip(ls, eols):
            marks += [pos, pos + 1, pos + len(l), pos + len(l) + 1, pos + len(l) + len(e)]
            pos += len(l) + len(e)
        marks += [h - 1, h, h + 1, h + 2]
        marks += [k for k in range(n) if stream[k] == 0 for k in (k, k + 1)][:8]
        marks = sorted({c for c in marks if 0 < c < n})
        segs = [[], list(range(1, n)), list(range(14, n, 14)), list(range(rng.randrange(1, 14), n, 14)), marks]
        for c in rng.sample(marks, min(len(marks), 6)):
            segs.append([c])
        for _ in range(3):
            segs.append(sorted(set(rng.sample(marks, min(len(marks), rng.randint(2, 4))))) if marks else [])
        for _ in range(3):
            segs.append(seg_random(rng, n))
        seen = set()
        for cs in segs:
            if tuple(cs) not in seen:
                seen.add(tuple(cs))
                out.append(ws_line(mode, stream, cs))
    return out


def gen_ws_self(ctx, n_streams):
    """`wsself`: one chunk on which the READER closes the session by itself — 1002 (wrong masking for the role), 1003
    (Ping/Pong/Text/Continuation), 1009 (declared length above 1472, 16- and 64-bit forms), a Close frame — with bytes of
    the same chunk still pending: further frames, a Close frame, random bytes; short tails (everything inside the 14-byte
    header read) and long ones.  coap_ws_close() then runs from inside coap_ws_read(); ties the model's `selfClose`
    (refusalPoint + closeDrain from the refusal state: recv_close, bytes never read) to the code."""
    rng = ctx.rng
    out = []
    for i in range(n_streams):
        mode = rng.choice(["c", "s"])
        masked = mode == "s"
        mk = lambda: G.rbytes(rng, 4) if masked else None
        hs = W.handshake(mode, rng, rng.choice([0, 0, 2]))
        before = [rng.choice([ws_frame(rng, mode, ws_msg(rng, 0)), W.frame(b"", masked, mask=mk()),
                              W.frame(bytes([0, 1]), masked, mask=mk())]) for _ in range(rng.choice([0, 0, 1, 2, 3]))]
        c = rng.randrange(8)
        if c == 0: bad = W.frame(ws_msg(rng, 0)[:rng.choice([0, 2, 5, 40])], not masked, mask=None if masked else G.rbytes(rng, 4))
        elif c == 1: bad = W.frame(G.rbytes(rng, rng.choice([0, 0, 2, 9])), masked, mask=mk(),
                                   opcode=rng.choice([W.OP_PING, W.OP_PONG, W.OP_TEXT, W.OP_CONT, 3, 11, 15]))
        elif c == 2: bad = W.frame(b"", masked, mask=mk(), lenform=64, declared_len=rng.choice([1473, 65536, 2 ** 31, 2 ** 63, 2 ** 64 - 1]))
        elif c == 3: bad = W.frame(b"", masked, mask=mk(), lenform=16, declared_len=rng.choice([1473, 1474, 4096, 65535]))
        elif c == 4: bad = W.frame(rng.choice([b"", b"\x03\xe8", b"\x03\xe9bye"]), masked, mask=mk(), opcode=W.OP_CLOSE)
        elif c == 5: bad = W.frame(G.rbytes(rng, rng.choice([1473, 1500])), masked, mask=mk())
        elif c == 6: bad = W.frame(b"", masked, mask=mk(), opcode=rng.choice([W.OP_PING, W.OP_TEXT]), lenform=rng.choice([16, 64]))
        else: bad = ws_special(rng, mode)
        tail = []
        for _ in range(rng.choice([0, 1, 1, 2, 3, 6])):
            t = rng.randrange(6)
            if t == 0: tail.append(W.frame(b"\x03\xe8", masked, mask=mk(), opcode=W.OP_CLOSE))
            elif t == 1: tail.append(W.frame(bytes([0, 1]), masked, mask=mk()))
            elif t == 2: tail.append(ws_frame(rng, mode, ws_msg(rng, 0)))
            elif t == 3: tail.append(G.rbytes(rng, rng.choice([1, 2, 3, 7, 13, 14, 15, 30, 120])))
            elif t == 4: tail.append(W.frame(G.rbytes(rng, rng.choice([99, 100, 101, 200])), masked, mask=mk()))
            else: tail.append(W.frame(b"", masked, mask=mk()))
        stream = hs + b"".join(before) + bad + b"".join(tail)
        if rng.random() < 0.15:
            stream = stream[:len(hs) + len(b"".join(before)) + rng.randrange(1, len(bad) + 1)]
        out.append("wsself %s %s" % (mode, hx(stream)))
    return out


def gen_ws_close(ctx, n_streams):
    """`wsclose`: the application closes an established session while bytes are pending: coap_ws_close sends its Close
    frame and drains the socket (at most 5 coap_ws_read calls into a 100-byte buffer) for the peer's Close frame.
    Ties the model's `closeDrain` (recv_close, bytes left unread) to the code; no S column."""
    rng = ctx.rng
    out = []
    for i in range(n_streams):
        mode = rng.choice(["c", "s"])
        masked = mode == "s"
        hs = W.handshake(mode, rng, rng.choice([0, 0, 2]))
        mk = lambda: G.rbytes(rng, 4) if masked else None
        before = [ws_frame(rng, mode, ws_msg(rng, 0)) for _ in range(rng.choice([0, 1, 2]))]
        pend = []
        for _ in range(rng.choice([0, 1, 2, 3, 4, 5, 6, 8])):
            c = rng.randrange(10)
            if c < 4: pend.append(ws_frame(rng, mode, ws_msg(rng, 0)))
            elif c == 4: pend.append(W.frame(b"", masked, mask=mk(), lenform=rng.choice([None, 16, 64])))
            elif c == 5: pend.append(W.frame(G.rbytes(rng, rng.choice([90, 99, 100, 101, 126, 300, 1472, 1473])), masked, mask=mk()))
            elif c == 6: pend.append(W.frame(b"", masked, mask=mk()) * rng.choice([3, 10, 30]))
            elif c == 7: pend.append(ws_special(rng, mode))
            else: pend.append(W.frame(rng.choice([b"", b"\x03\xe8", b"\x03\xe9bye"]), masked, mask=mk(), opcode=W.OP_CLOSE))
        if rng.random() < 0.6:
            pend.append(W.frame(b"\x03\xe8", masked, mask=mk(), opcode=W.OP_CLOSE))
        if pend and rng.random() < 0.2:
            pend[-1] = pend[-1][:rng.randrange(1, len(pend[-1]) + 1)]
        head = hs + b"".join(before)
        stream = head + b"".join(pend)
        cuts = {len(head)}
        for d in (-3, -1, 1, 2, 5):          # the close comes inside a frame header / payload
            if len(hs) <= len(head) + d <= len(stream):
                cuts.add(len(head) + d)
        if rng.random() < 0.1:
            cuts.add(rng.randrange(1, len(hs)))     # handshake not done: nothing to drain
        for c in sorted(cuts):
            out.append("wsclose %s %s %d" % (mode, hx(stream), c))
    return out


def generate(ctx, escalate=False):
    if ctx.thorough():
        lines = gen_tcp(ctx, 6000, 40, 60) + gen_ws(ctx, 5000, 16, 80)
    else:
        lines = gen_tcp(ctx, 1000, 22, 8) + gen_ws(ctx, 500, 12, 10)
    if escalate:
        lines += gen_tcp(ctx, 1500, 22, 8) + gen_ws(ctx, 600, 12, 10)
    lines += gen_ws_empty_runs(ctx, 60 if ctx.thorough() else 12)
    lines += gen_ws_hostile_hs(ctx, 2500 if ctx.thorough() else 300)
    lines += gen_ws_close(ctx, 3000 if ctx.thorough() else 400)
    lines += gen_ws_self(ctx, 6000 if ctx.thorough() else 1200)
    ctx.cov["exhaustive"] = ("every 1-, 2- and 3-cut placement of %d TCP streams and of the frame part of %d WS streams"
                             % (ctx.cov.get("exhaustive_streams", 0), ctx.cov.get("ws_exhaustive_streams", 0)))
    return ["consts"] + gen_tcp_cap_boundary(ctx) + lines


# ---------------------------------------------------------------------------------------------
# verdicts
# ---------------------------------------------------------------------------------------------
def short(s):
    return s if s is None or len(s) < 200 else s[:190] + "…"


def canon_impl(line, i):
    """the compared part of the harness output: WS lines carry events / nack reason after ' # ' (informational), and
    `up=` is only meaningful while the session is open"""
    if i is None or not line.startswith("ws "):
        return i
    i = i.split(" # ")[0]
    if " end=closed" in i:
        i = i.split(" up=")[0]
    return i


def judge(ctx, c):
    i, m, s = canon_impl(c["input"], c["impl"]), c["model"], c["spec"]
    if c["input"] == "consts":
        return None if i == m else ("tie", "constants of the code %s differ from the model's %s" % (i, m))
    if i is not None and i.startswith("crash watchdog-skipped"):
        ctx.cov["watchdog_skipped"] = ctx.cov.get("watchdog_skipped", 0) + 1
        return None
    if s is not None and i != s:
        return ("spec", "the implementation hands on %s but the bytes of the stream contain %s" % (short(i), short(s)))
    if i != m:
        return ("tie", "implementation %s but model M says %s" % (short(i), short(m)))
    return None


def nontrivial(c):
    if c["input"].startswith("wsclose "):
        return " drain " in (c["model"] or "")
    if c["input"].startswith("wsself "):
        return " self " in (c["model"] or "")
    s = c["spec"] or ""
    return not (s.startswith("n=0 end=open") and "up=1" not in s)


def classify(c):
    w = c["input"].split()
    if w[0] == "consts":
        return "consts"
    if w[0] == "wsclose":
        m = c["model"] or ""
        return "wsclose-%s:%s" % (w[1], "noclose" if "noclose" in m else "recv-close" if "rc=1" in m else
                                  "drained" if " left=0 " in m else "left")
    if w[0] == "wsself":
        m = c["model"] or ""
        return "wsself-%s:%s" % (w[1], "noself" if "noself" in m else "recv-close" if "rc=1" in m else
                                 "all-read" if " left=0 " in m else "left")
    s = c["spec"] or ""
    ncuts = 0 if w[3] == "-" else w[3].count(",") + 1
    if w[0] == "ws":
        return "ws-%s:%s:%s" % (w[1], "closed" if "end=closed" in s else "up" if "up=1" in s else "handshake",
                                "0cuts" if ncuts == 0 else "1-3cuts" if ncuts <= 3 else "many")
    return "%s:%s:%s" % (w[0], "closed" if "end=closed" in s else "open", "0cuts" if ncuts == 0 else "1-3cuts" if ncuts <= 3 else "many")


def known(ctx, c):
    return None


def search(ctx, tie_breaks, proof):
    """more segmentations of the streams on which the correspondence broke"""
    rng = ctx.rng
    out = []
    for c in tie_breaks[:30]:
        w = c["input"].split()
        if w[0] != "tcp":
            continue
        stream = bytes.fromhex(w[2]) if w[2] != "-" else b""
        for cs in segmentations(rng, stream, 16, 100):
            out.append(tcp_line(int(w[1]), stream, cs))
    out += gen_tcp(ctx, 800, 22, 4)
    return out


def shrink(ctx, case):
    """drop cuts, then trailing bytes, while the implementation still contradicts the specification"""
    from vlib.runner import diff_side
    import props.C05 as me
    w = case["input"].split()
    if w[0] != "tcp":
        return case
    stream = bytes.fromhex(w[2]) if w[2] != "-" else b""
    cuts = [] if w[3] == "-" else [int(x) for x in w[3].split(",")]
    best = case
    for _ in range(8):
        cands = []
        for i in range(len(cuts)):
            cands.append((stream, cuts[:i] + cuts[i + 1:]))
        for cut_at in sorted({len(stream) - 1, len(stream) // 2, (cuts[-1] + 1) if cuts else 0}):
            if 0 < cut_at < len(stream):
                cands.append((stream[:cut_at], [c for c in cuts if c < cut_at]))
        cands = cands[:300]
        if not cands:
            break
        lines = [tcp_line(int(w[1]), s, cs) for s, cs in cands]
        hit = None
        for (s, cs), cc in zip(cands, diff_side(ctx, me, lines)):
            v = judge(ctx, cc)
            if v and v[0] == "spec" and not known(ctx, cc):
                cc["why"] = v[1]; hit = (s, cs, cc)
                break
        if not hit:
            break
        stream, cuts, best = hit
    return best


# ---- T1X: the numerals of this property's models are tied to the current tree.  extract/consts2*.c + a source scan
# rewrite lean/CoapVerif/Generated/Consts2.lean on every check; Props/C05Consts.lean proves `<model numeral> =
# Generated.C2.<name>` (design/T1.md).  A changed macro / struct size / literal breaks one of these named obligations.
LEAN_MODULES = list(LEAN_MODULES) + ["CoapVerif.Props.C05Consts"]
REQUIRED_THEOREMS = list(REQUIRED_THEOREMS) + [
    "stream_rhCap_matches_code",
    "stream_maxRx_matches_code",
    "stream_rxBuf_matches_code",
    "stream_maxHdr_matches_code",
    "stream_header_fits_matches_code",
    "ws_httpCap_matches_code",
    "ws_fsCap_matches_code",
    "ws_rxBuf_matches_code",
    "ws_drainBuf_matches_code",
    "ws_drainCount_matches_code",
    "ws_maxLine_matches_code",
    "ws_maxFrame_matches_code",
]
TRUSTED_BASE = list(TRUSTED_BASE) + ["T1 extractors extract/consts2.c, consts2_net.c, consts2_opt.c and the source scan vlib/tables.py scan_consts2 (Generated/Consts2.lean)"]
_t1x_prev_extract = globals().get("extract")


def extract(ctx):
    from vlib import tables
    return (_t1x_prev_extract(ctx) if _t1x_prev_extract else []) + tables.extract_consts2()
