"""C17 — persisted observe state survives a crash at any point and is restored on restart (DESIGN.md §4 C17, design/C17.md)."""
import glob, os, re, shutil, time
from vlib import common as C

LEAN_MODULES = ["CoapVerif.Props.C17"]
NAMESPACE = "Coap.C17"
REQUIRED_THEOREMS = ["record_roundtrip_dyn", "record_roundtrip_obs", "record_roundtrip_cnt", "update_atomic",
                     "update_functional_dyn_added", "update_functional_dyn_deleted", "update_functional_obs_added",
                     "update_functional_obs_deleted", "update_functional_cnt_track", "update_functional_cnt_deleted",
                     "restart_restores", "restart_restores_after_crash", "observe_after_restart_greater",
                     "observe_after_restart_greater_crash", "observe_after_restart_greater_serial", "file_roundtrip_dyn",
                     "file_roundtrip_obs", "file_roundtrip_cnt", "dyn_added_pinned_loses_entries", "update_records_dyn_added",
                     "update_records_dyn_deleted", "update_records_obs_added", "update_records_obs_deleted",
                     "update_records_cnt_track", "update_records_cnt_deleted", "update_other_files_untouched",
                     "endpoint_search_finds", "endpoint_search_sound", "restart_restores_endpoints",
                     "restart_restores_endpoints_after_crash"]
RULE = ("one case = one history on a server context with 1..3 UDP endpoints (save_freq 1..10; events: create / delete a dynamic resource, register / re-register / cancel an "
        "observation for one of 3 (9 with several endpoints: each client talks to one endpoint) clients, notify, counter jump to the 24-bit wrap, clean restart) run through the real server "
        "(coap_handle_dgram, coap_resource_notify_observers, coap_persist_startup) with stdio+rename wrapped; for EVERY event "
        "and EVERY wrapped call k a child is killed immediately before call k (and after the last), the files are read back and "
        "a fresh context restarted; non-trivial = history in which at least one persistence file was rewritten")
TRUSTED_BASE = ["Lean 4.33 kernel; axioms allowed: propext, Classical.choice, Quot.sound (audited per theorem each run)",
                "harness/persist.c (wrapped stdio, fork/_exit crash enumeration, canonical dumps) + generator + the Python oracle in props/C17.py",
                "M (CoapVerif/Model/Persist.lean) is a hand transcription of the updaters/loaders of coap_subscribe.c as stdio op sequences and "
                "of the call-outs in coap_resource.c; compared with the compiled code (op log, every crash state, restart state) on the cases run only"]
ASSUMPTIONS = ["process kill, not power loss: what was flushed/closed survives (no fsync in the code; outside the property and the model)",
               "rename() is atomic; an unflushed stdio buffer reaches the disk at most as a prefix (crashDisk's `keep`)",
               "stdio calls fail only as fopen(\"r\") of a missing file / read at end of file (no ENOSPC, EIO)",
               "the three save files and their .tmp siblings have pairwise distinct names",
               "resource names contain no NUL, space or newline (guaranteed for dynamic resources: coap_get_uri_path() percent-escapes them) and fit fgets' 1500-byte buffer",
               "save_freq is the same before and after the restart",
               "the restarted server has the same endpoints (protocol, bind address) as before; observations over UDP only (libcoap persists no others)",
               "compiled Lean definitions agree with the kernel's reading of them"]
SPEC_DECISIONS = ["D17.1 re-registering an observation with a new token is a cancellation followed by a registration (two updates)",
                  "D17.2 'first Observe value sent after restart' = the first notification on a re-established observation",
                  "D17.3 'greater' is RFC 7641 §3.4 serial-number order on 24 bits",
                  "D17.4 only observable dynamic resources are persisted (coap_add_resource saves nothing else); the harness creates them observable",
                  "D17.5 deleting a resource is complete once it has left the dyn file: from then on a restart yields the state after the deletion"]
RUN_KW = {"shards": 16, "timeout": 1500}
WRAPS = ["fopen", "fread", "fwrite", "fgets", "fprintf", "vfprintf", "fputs", "fputc", "fflush", "fclose", "rename", "remove",
         "coap_socket_send"]
NRES, NCLI = 6, 3

MANIFEST = {
    "text": "Lean theorems about the transcription M of coap_subscribe.c's persistence code (every updater as its sequence of stdio / rename "
            "calls over a file system with process-kill semantics): record_roundtrip_{dyn,obs,cnt}; update_atomic — for every updater, all "
            "arguments, all file contents and every crash point the save file holds the old or the new contents, never a mixture; "
            "update_functional_* — new = old with the entry added / replaced / removed; restart_restores — by induction over every history "
            "the loaders re-create exactly the resources created−deleted and observations added−removed, also after a crash at any point of "
            "the last update (state before or after it); observe_after_restart_greater — every Observe value sent before the crash is below "
            "the first one after restart (24-bit serial arithmetic, wrap hypothesis explicit); endpoint_search_finds / "
            "restart_restores_endpoints — on a context with any number of endpoints the loader's endpoint search finds the endpoint an observation "
            "came in through wherever it is in the list, so no observation is lost because of its endpoint. M is tied to the compiled code by an H-fs "
            "harness: real server with 1..3 UDP endpoints, stdio wrapped, a child killed before/after every wrapped call of every event, op log + files + restarted "
            "state compared with M's prediction and with a property-level oracle.",
    "note": "partial: power-loss durability (no fsync) is outside the property and the model; rename atomicity and stdio buffering semantics "
            "are assumptions. Trusted: Lean kernel (+ propext, "
            "Classical.choice, Quot.sound), harness/generator/oracle, the hand transcription M (checked on the cases run only).",
    "design_ref": "DESIGN.md §4 C17; design/C17.md",
}


def harness(ctx):
    # stale private directories of harness processes that were killed
    for d in glob.glob("/var/tmp/c17-*"):
        try:
            if time.time() - os.path.getmtime(d) > 1800:
                shutil.rmtree(d, ignore_errors=True)
        except OSError:
            pass
    return C.build_harness("persist", C.build_libcoap(), wraps=WRAPS)


# --------------------------------------------------------------------------------------------- generator
def gen_history(rng, space=False, wrap=False, eps=False):
    """space: include resource 5, the root resource (empty Uri-Path); eps: a server context with 1..3 UDP endpoints
    (`persistep <f> <kinds> …`, 9 clients, client c talks to the endpoint at position (c // 3) % #endpoints)"""
    f = rng.choice([1, 1, 2, 2, 3, 4, 5, 7, 10, 10, rng.randint(1, 10)])
    nres = rng.choice([1, 2, 2, 3])
    pool = rng.sample(range(5), nres)
    if space:
        pool[0] = 5
    # resource names 0 ("a") and 3 ("a0") are a proper prefix of one another: deleting one must not touch the other's records
    prefix_pair = (not space) and rng.random() < 0.2
    if prefix_pair:
        pool = [0, 3] + [x for x in pool if x not in (0, 3)][:1]
    ncli = rng.choice([1, 2, 3])
    clients = list(range(ncli))
    head = "persist %d" % f
    if eps:
        kinds = rng.sample(range(3), rng.choice([1, 2, 2, 2, 3, 3]))
        # clients spread over the endpoints; most of the time at least one on every endpoint
        clients = rng.sample(range(3 * NCLI), rng.choice([2, 3, 3, 4]))
        if rng.random() < 0.7:
            clients = sorted(set(clients[:1] + [3 * p + rng.randrange(3) for p in range(len(kinds))]))
        head = "persistep %d %s" % (f, "".join(map(str, kinds)))
    exists, obs = set(), {}
    ev = []
    n = rng.choice([3, 4, 5, 6, 6, 7, 8])
    # most histories start by creating something and observing it, otherwise nothing interesting happens
    steps = 0
    if prefix_pair:
        a, b = rng.choice([(0, 3), (3, 0)])
        ev += ["c0", "c3", "a0.%d.1" % b, "n%d" % b, "d%d" % a]
        exists |= {b}; obs[(0, b)] = 1
        if rng.random() < 0.5:
            ev.append("r")
    while steps < n and len(ev) < 14:
        steps += 1
        r = rng.random()
        i = rng.choice(pool)
        c = rng.choice(clients)
        if steps == 2 and exists and rng.random() < 0.85:
            i = rng.choice(sorted(exists)); r = 0.3          # an observation early on, otherwise little is persisted
        if not exists or r < 0.16:
            ev.append("c%d" % i); exists.add(i)
        elif r < 0.40:
            v = obs.get((c, i), -1)
            v = v if (v >= 0 and rng.random() < 0.15) else (v + 1) % 10
            ev.append("a%d.%d.%d" % (c, i, v))
            if i in exists:
                obs[(c, i)] = v
        elif r < 0.70:
            tgt = [k[1] for k in obs] or [i]
            j = rng.choice(tgt)
            for _ in range(rng.choice([1, 1, 2, 3, 5])):
                ev.append("n%d" % j)
        elif r < 0.78:
            ev.append("x%d.%d.%d" % (c, i, obs.get((c, i), 0) if rng.random() < 0.8 else 9))
            obs.pop((c, i), None)
        elif r < 0.88:
            ev.append("d%d" % i)
            if i in exists:
                exists.discard(i)
                for k in [k for k in obs if k[1] == i]:
                    del obs[k]
        elif r < 0.96:
            ev.append("r")
        elif wrap or r < 0.98:
            ev.append("j%d.%d" % (i, rng.choice([16777215, 16777214, 16777216 - f, 16777210, 16777205, 8388607, 100, 0])))
    if eps and "r" not in ev and rng.random() < 0.5:
        ev = ev[:13] + ["r"]                       # the restart is what the endpoints matter for
    return "%s %s" % (head, " ".join(ev[:14]))


def generate(ctx, escalate=False):
    rng = ctx.rng
    n = 2500 if ctx.thorough() else 200
    if escalate:
        n *= 2
    out = []
    for k in range(n):
        out.append(gen_history(rng, space=(k % 8 == 7), wrap=(k % 10 == 3)))
    # server contexts with several endpoints (every crash state is a restart with the same endpoints)
    for k in range(n // 4):
        out.append(gen_history(rng, space=(k % 8 == 5), wrap=(k % 10 == 3), eps=True))
    return out


# --------------------------------------------------------------------------------------------- oracle (S, from the property text)
EV_RE = re.compile(r"\[(\S+) L=(.*?) K=(\d+)((?: [0-9-]+\{[^}]*\})*)\]")
ST_RE = re.compile(r" (\d+)(?:-(\d+))?\{([^}]*)\}")


def serial_lt(a, b):
    """RFC 7641 §3.4 on 24 bits"""
    return (a < b and b - a < 2 ** 23) or (a > b and a - b > 2 ** 23)


def parse_state(s):
    d = {}
    for part in s.split(";"):
        k, _, v = part.partition(":")
        d[k] = v
    return d


def lst(v):
    return [] if v in ("-", "~", "") else v.split(",")


def abstract_steps(ev, res, obs):
    """the abstract states (resources, observations) an event passes through; each step is one update (D17.1)"""
    states = [(frozenset(res), frozenset(obs.items()))]
    k, rest = ev[0], ev[1:]
    if k == "c":
        i = int(rest)
        if i not in res:
            res.add(i)
    elif k == "d":
        i = int(rest)
        if i in res:
            res.discard(i)
            for key in [key for key in obs if key[1] == i]:
                del obs[key]
    elif k == "a":
        c, i, v = map(int, rest.split("."))
        if i in res and obs.get((c, i)) != v:
            if (c, i) in obs:
                del obs[(c, i)]
                states.append((frozenset(res), frozenset(obs.items())))
            obs[(c, i)] = v
    elif k == "x":
        c, i, v = map(int, rest.split("."))
        obs.pop((c, i), None)
    states.append((frozenset(res), frozenset(obs.items())))
    return states


def split_line(line):
    """(head words incl. op, save_freq [and endpoint kinds]; event words)"""
    w = line.split()
    k = 3 if w and w[0] == "persistep" else 2
    return w[:k], w[k:]


def ep_note(head, S, want):
    """for `persistep` cases: through which endpoint the observations that are missing (or sit on the wrong session: version 99)
    after the restart had been registered"""
    if len(head) < 3:
        return ""
    kinds = head[2]
    have = set(((c, i), v) for (c, i, v) in S)
    miss = sorted(k[0] for k in want - have)
    if not miss:
        return ""
    return " [endpoints in creation order: kinds %s; missing/misplaced: %s]" % (kinds, ", ".join(
        "client %d (endpoint #%d, kind %s)" % (c, (c // NCLI) % len(kinds), kinds[(c // NCLI) % len(kinds)]) for c in sorted(set(m[0] for m in miss))))


def check_property(line, out):
    """all complaints of the property-level oracle about the implementation's output: list of (tag, resource, text)"""
    bad = []
    if out is None or not out.startswith("f="):
        return [("crash", -1, "harness: %s" % (out or "no output")[:200])]
    _head, evs = split_line(line)
    found = EV_RE.findall(out)
    if len(found) != len(evs) or "bad-op" in out:
        return [("crash", -1, "harness output does not cover the history: %s" % out[-200:])]
    res, obs = set(), {}
    kills = 0
    for ev, (ev2, _log, K, states) in zip(evs, found):
        parts = ev[1:].split(".")
        subj = -1 if ev == "r" else int(parts[1]) if ev[0] in "ax" else int(parts[0])
        before_obs = dict(obs)
        steps = abstract_steps(ev, res, obs)
        sts = ST_RE.findall(states)
        first = None
        idx = 0
        for (a, b, body) in sts:
            kills += (int(b) if b else int(a)) - int(a) + 1
            where = "%s@k=%s" % (ev, a)
            if "died" in body or "D:" not in body:
                bad.append(("crash", -1, "%s: %s" % (where, body[:120]))); continue
            st = parse_state(body)
            last = (int(b) if b else int(a)) == int(K) + 1
            # (1) never torn, every record intact
            for fk in "DOC":
                if "torn" in st[fk] or "!" in st[fk] or "-1" in st[fk]:
                    bad.append(("torn-" + fk, subj, "%s: file %s is not a sequence of complete records: %s" % (where, fk, st[fk])))
            try:
                D = [int(x) for x in lst(st["D"].replace("+torn", ""))]
                O = [tuple(int(y.rstrip("!")) for y in x.split(".")) for x in lst(st["O"].replace("+torn", ""))]
                Cf = [(int(x.split("=")[0]), int(x.split("=")[1])) for x in lst(st["C"].replace("+torn", ""))]
                R = {int(x.split("@")[0]): int(x.split("@")[1]) for x in lst(st["R"])}
                S = set(tuple(int(y) for y in x.split(".")) for x in lst(st["S"]))
                N = {int(x.split("=")[0]): x.split("=")[1] for x in lst(st["N"])}
                P = {int(x.split("=")[0]): [int(y) for y in x.split("=")[1].split("/")] for x in lst(st["P"])}
            except ValueError:
                bad.append(("crash", -1, "%s: unparsable state %s" % (where, body[:160]))); continue
            if first is None:
                first = (D, O, Cf)
            # (2) each file holds the complete state before or after one of the event's updates
            Dset, Oset = frozenset(D), frozenset(((c, i), v) for (c, i, v) in O)
            if len(D) != len(Dset) or Dset not in [s[0] for s in steps]:
                bad.append(("dyn-file", subj, "%s: dyn file lists %s, allowed %s" % (where, sorted(D), [sorted(s[0]) for s in steps])))
            if ev[0] == "d":
                lo = steps[-1][1]; hi = steps[0][1]
                okO = lo <= Oset <= hi
            else:
                okO = Oset in [s[1] for s in steps]
            if len(O) != len(Oset) or not okO:
                bad.append(("obs-file", subj, "%s: observe file lists %s, allowed %s" % (where, sorted(O), [sorted(s[1]) for s in steps])))
            ckeys = [k for k, _ in Cf]
            if len(set(ckeys)) != len(ckeys):
                bad.append(("cnt-file", subj, "%s: counter file has duplicate entries %s" % (where, Cf)))
            if ev != "r":
                for (k0, v0) in first[2]:
                    if k0 != subj and (k0, v0) not in Cf:
                        bad.append(("cnt-file", k0, "%s: counter entry %d=%d of an unrelated resource changed: %s" % (where, k0, v0, Cf)))
                for (k1, v1) in Cf:
                    if k1 != subj and (k1, v1) not in first[2]:
                        bad.append(("cnt-file", k1, "%s: counter entry %d=%d of an unrelated resource appeared" % (where, k1, v1)))
            # (3) restart re-creates the state before or after the interrupted update
            rs = (frozenset(R), frozenset(((c, i), v) for (c, i, v) in S))
            cand = [j for j, s in enumerate(steps) if s == rs and j >= idx]
            if not cand:
                bad.append(("restart", subj, "%s: restart yields resources %s observations %s, allowed (in order) %s%s" % (
                    where, sorted(R), sorted(S), [(sorted(s[0]), sorted(s[1])) for s in steps[idx:]], ep_note(_head, S, steps[-1][1]))))
            else:
                idx = cand[0]
            if last and rs != steps[-1]:
                bad.append(("restart", subj, "%s: event complete but restart yields resources %s observations %s, expected %s %s%s" % (
                    where, sorted(R), sorted(S), sorted(steps[-1][0]), sorted(steps[-1][1]), ep_note(_head, S, steps[-1][1]))))
            if last and (Dset != steps[-1][0] or Oset != steps[-1][1]):
                bad.append(("functional", subj, "%s: event complete but files list %s %s, expected %s %s" % (
                    where, sorted(D), sorted(O), sorted(steps[-1][0]), sorted(steps[-1][1]))))
            # (4) the first Observe value after the restart is greater than any sent before the crash
            for (c, i, v) in S:
                if i not in N or N[i] == "none":
                    bad.append(("observe", i, "%s: re-established observation on %d gets no notification" % (where, i)))
            for i, nv in N.items():
                if nv == "none":
                    continue
                for p in P.get(i, []):
                    if not serial_lt(p, int(nv)):
                        bad.append(("observe", i, "%s: Observe %d was sent for resource %d before the crash, first value after restart is %s" % (
                            where, p, i, nv)))
                        break
    return bad, kills


def judge(ctx, c):
    i, m = c["impl"], c["model"]
    r = check_property(c["input"], i)
    if isinstance(r, list):
        bad, kills = r, 0
    else:
        bad, kills = r
    ctx.cov["kills"] = ctx.cov.get("kills", 0) + kills
    if bad:
        c["_complaints"] = bad
        return ("spec", "; ".join(b[2] for b in bad[:3]) + (" (+%d more)" % (len(bad) - 3) if len(bad) > 3 else ""))
    if i != m:
        return ("tie", first_diff(i, m))
    return None


def first_diff(i, m):
    a, b = EV_RE.findall(i or ""), EV_RE.findall(m or "")
    for x, y in zip(a, b):
        if x != y:
            if x[1] != y[1]:
                la, lb = x[1].split(), y[1].split()
                k = next((k for k in range(min(len(la), len(lb))) if la[k] != lb[k]), min(len(la), len(lb)))
                return "event %s: op log differs at call %d: implementation %s, model %s" % (x[0], k + 1, la[k:k + 3], lb[k:k + 3])
            sa, sb = ST_RE.findall(x[3]), ST_RE.findall(y[3])
            for p, q in zip(sa, sb):
                if p != q:
                    return "event %s: crash state differs: implementation k=%s-%s{%s} model k=%s-%s{%s}" % ((x[0],) + p + q)
            return "event %s: K %s vs %s" % (x[0], x[2], y[2])
    return "outputs differ: implementation %s… model %s…" % ((i or "")[:120], (m or "")[:120])


def nontrivial(c):
    return " mv:" in (c["impl"] or "")


def classify(c):
    w, evs = split_line(c["input"])
    kinds = "".join(sorted(set(e[0] for e in evs)))
    return "f%s%s:%s" % (w[1], ("/ep" + w[2]) if len(w) > 2 else "", kinds)


def known(ctx, c):
    return None


def search(ctx, tie_breaks, proof):
    rng = ctx.rng
    out = []
    for c in tie_breaks[:20]:
        w, evs = split_line(c["input"])
        for f in (1, 2, 3, 10):
            hd = " ".join([w[0], str(f)] + w[2:])
            out.append("%s %s" % (hd, " ".join(evs)))
            out.append("%s %s r %s" % (hd, " ".join(evs), " ".join(e for e in evs if e[0] == "n")))
        for k in range(1, len(evs)):
            out.append("%s %s r" % (" ".join(w), " ".join(evs[:k])))
    for k in range(300):
        out.append(gen_history(rng, wrap=(k % 5 == 0), eps=(k % 3 == 1)))
    return out


def shrink(ctx, case):
    """greedy removal of events while the implementation still contradicts the property (and it is not the known finding)"""
    from vlib.runner import diff_side
    import props.C17 as me
    w, evs = split_line(case["input"])
    head = " ".join(w)
    best = case
    changed, rounds = True, 0
    while changed and rounds < 8 and len(evs) > 1:
        changed = False; rounds += 1
        cands = [evs[:k] + evs[k + 1:] for k in range(len(evs))]
        lines = ["%s %s" % (head, " ".join(e)) for e in cands]
        for cc in diff_side(ctx, me, lines):
            v = judge(ctx, cc)
            if v and v[0] == "spec":
                cc = dict(cc); cc["why"] = v[1]; cc.pop("_complaints", None)
                best = cc
                evs = split_line(cc["input"])[1]
                changed = True
                break
    best = dict(best); best.pop("_complaints", None)
    return best


# ---- T1X: the numerals of this property's models are tied to the current tree.  extract/consts2*.c + a source scan
# rewrite lean/CoapVerif/Generated/Consts2.lean on every check; Props/C17Consts.lean proves `<model numeral> =
# Generated.C2.<name>` (design/T1.md).  A changed macro / struct size / literal breaks one of these named obligations.
LEAN_MODULES = list(LEAN_MODULES) + ["CoapVerif.Props.C17Consts"]
REQUIRED_THEOREMS = list(REQUIRED_THEOREMS) + [
    "szKey_matches_code",
    "szProto_matches_code",
    "szAddr_matches_code",
    "szTuple_matches_code",
    "szLen_matches_code",
    "minusOne_matches_code",
    "maxLen_matches_code",
    "cntBuf_matches_code",
    "initialObserve_matches_code",
    "mask24_matches_code",
    "protoUdp_matches_code",
]
TRUSTED_BASE = list(TRUSTED_BASE) + ["T1 extractors extract/consts2.c, consts2_net.c, consts2_opt.c and the source scan vlib/tables.py scan_consts2 (Generated/Consts2.lean)"]
_t1x_prev_extract = globals().get("extract")


def extract(ctx):
    from vlib import tables
    return (_t1x_prev_extract(ctx) if _t1x_prev_extract else []) + tables.extract_consts2()
