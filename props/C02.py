"""C02 — arbitrary network input never breaks memory safety, liveness or the endpoint (DESIGN.md §4 C02)."""
import os
from vlib import common as C, coapgen as G

LEAN_MODULES = ["CoapVerif.Props.C02"]
NAMESPACE = "Coap.C02"
REQUIRED_THEOREMS = ["parse_never_oob", "walk_never_oob", "rejected_never_dispatched", "dispatched_is_reference_decoding",
                     "malformed_reply_at_most_reset", "wrong_version_silently_ignored"]
RULE = ("hparse: byte strings (blind random at lengths 0..64 and a few long ones; valid encodings; 1-4 field-level mutations of valid "
        "encodings) through the receive gate for udp/tcp/ws at log levels 0, 4, 7, 8 under ASan+UBSan with a null log handler so that "
        "the debug dump in coap_pdu_parse_opt and coap_show_pdu walk the PDU again; non-trivial = distinct input that is not a blind "
        "string shorter than a header")
TRUSTED_BASE = ["Lean 4.33 kernel; axioms allowed: propext, Classical.choice, Quot.sound (audited per theorem each run)",
                "ASan/UBSan (and valgrind, thorough) as observers of the compiled C: memory safety of the compiled code is observed on the inputs run, not proved",
                "harness/hostile.c reproduces the gate of coap_handle_dgram / coap_read_session without a session (sequences in live endpoint states: sim part)",
                "M (Model/Parse.lean, Model/Gate.lean) is a hand transcription, checked against the compiled code on the cases run"]
ASSUMPTIONS = ["termination = totality of the Lean model functions (fuel bounded by input length); the compiled C is watched by a per-shard timeout",
               "partial: memory safety / UAF / uninitialised reads of the compiled C are sanitizer observations"]
RUN_KW = {"timeout": 600}


def harness(ctx):
    return C.build_harness("hostile", C.build_libcoap())


def hx(b):
    return b.hex() if b else "-"


def generate(ctx, escalate=False):
    rng = ctx.rng
    n = 300000 if ctx.thorough() else 40000
    if escalate:
        n *= 2
    out = []
    for i in range(n):
        proto = rng.choice(["udp", "udp", "tcp", "ws"])
        lvl = rng.choice([0, 4, 7, 7, 8])
        c = rng.random()
        if c < 0.3:
            ln = rng.choice([0, 1, 2, 3, 4, 5, 6, 7, 8, 10, 12, 16, 24, 32, 64]) if rng.random() < 0.95 else rng.choice([300, 1500, 70000])
            b = G.rbytes(rng, ln)
            if proto == "udp" and b and rng.random() < 0.7:
                b = bytes([0x40 | (b[0] & 0x3F)]) + b[1:]      # right version so that the parser is reached
        else:
            m = G.gen_msg(rng, big=rng.random() < 0.003, valid_len=rng.random() < 0.7)
            b = G.encode(proto, *m)
            if c < 0.85:
                for _ in range(rng.choice([1, 1, 2, 3, 4])):
                    b = G.mutate(rng, b)
        out.append("hparse %s %d %s" % (proto, lvl, hx(b)))
    return out


def judge(ctx, c):
    i, m = c["impl"], c["model"]
    if i is None or i.startswith("crash"):
        return ("spec", "the real code aborted on this input: %s" % i)
    if i != m:
        if i.startswith("dispatch") and not (m or "").startswith("dispatch"):
            return ("spec", "input the specification rejects was handed to the protocol layer: %s" % i[:150])
        return ("tie", "gate action differs: implementation %s, model %s" % (i[:150], (m or "")[:150]))
    return None


def nontrivial(c):
    w = c["input"].split()
    return len(w[3]) >= 8


def classify(c):
    w = c["input"].split()
    return "%s:lvl%s:%s" % (w[1], w[2], (c["model"] or "?").split()[0])


def search(ctx, tie_breaks, proof):
    rng = ctx.rng
    out = []
    for c in tie_breaks[:50]:
        w = c["input"].split()
        b = bytes.fromhex(w[3]) if w[3] != "-" else b""
        for _ in range(200):
            out.append("hparse %s %s %s" % (w[1], w[2], hx(G.mutate(rng, b))))
    return out


def known(ctx, c):
    return None
