"""C02 — arbitrary network input never breaks memory safety, liveness or the endpoint (DESIGN.md §4 C02)."""
import os
from vlib import common as C, coapgen as G

MANIFEST = {
    "text": "Proof, partial. Lean theorems over ALL byte strings: the transcribed decoder/option walk never index outside the received bytes "
            "(parse_never_oob, walk_never_oob; an out-of-bounds access is an observable value of the model), they terminate (total functions), "
            "input the RFC decoder rejects is never handed to the protocol layer and draws at most a Reset (rejected_never_dispatched[_session], "
            "malformed_reply_at_most_reset, oversize_datagram_never_dispatched). Tie + search: the receive gate of the real code runs under "
            "ASan/UBSan at every log level on random / mutated / valid inputs for all three framings, and sequences of hostile datagrams are "
            "delivered to live endpoints (server idle / with an observation / with a partial Block1 body, client with an outstanding request) "
            "followed by a canary request; a sanitizer abort, a handler call on rejected input or a failed canary is a concrete violation. "
            "The hostile-peer inputs of the block-wise code (C09's crcv/srcv2/xmit1 ops: inconsistent Block/Size options; never-written bytes seen by "
            "running twice with different allocation poisons) and of the stream readers (C05's tcp/ws ops) run here as well, with the owners' models and oracles. "
            "RFC 9177 (Q-Block): the client's 4.08 missing-blocks parser is transcribed and proved for ALL payloads to stay inside the payload, to terminate, to send "
            "at most MAX_PAYLOADS blocks and only blocks of its body (q408_never_oob, q408_only_blocks_of_body, q408_bounded), to agree with the server's encoder "
            "(q408_roundtrip), and the missing-blocks walk over the received-blocks ranges to name exactly the unrecorded numbers below a recorded one "
            "(qblock_missing_represents); tied to the real code by ops q408 / qenc / qset, and servers holding Q-Block1 / Q-Block2 state are attacked by datagram sequences.",
    "note": "Partial: memory safety, use-after-free, uninitialised reads and UB of the compiled C are observed by sanitizers on the inputs run, not "
            "proved; readers outside the modelled decoder (block, observe, OSCORE, URI, WebSocket code) are exercised by the sequences and owned by "
            "C05/C09/C14/C16/C20's own no-overread theorems. Trusted: Lean kernel (+ propext, Classical.choice, Quot.sound), harnesses, generators, sim_core.h.",
    "design_ref": "DESIGN.md §4 C02",
}
LEAN_MODULES = ["CoapVerif.Props.C02", "CoapVerif.Props.C05", "CoapVerif.Props.C16", "CoapVerif.Props.C20", "CoapVerif.Props.C09"]
# the no-overread / no-out-of-range theorems of the readers owned by other properties: C02's claim rests on them
REQUIRED_ELSEWHERE = {
    "Coap.C05": ["reader_no_oob", "oversize_closes", "ws_close_terminates"],
    "Coap.C16": ["no_overread"],
    "Coap.C20": ["match_no_overread", "wellknown_no_overread"],
    "Coap.C09": ["block_opt_bounds", "rblock_represents", "block2_hostile_no_unwritten_bytes", "block1_hostile_no_unwritten_bytes"],
}
NAMESPACE = "Coap.C02"
REQUIRED_THEOREMS = ["parse_never_oob", "walk_never_oob", "rejected_never_dispatched", "dispatched_is_reference_decoding",
                     "malformed_reply_at_most_reset", "wrong_version_silently_ignored",
                     "rejected_never_dispatched_session", "oversize_datagram_never_dispatched",
                     "q408_never_oob", "q408_only_blocks_of_body", "q408_bounded", "q408_roundtrip", "add408Block_some_iff",
                     "qblock_missing_represents",
                     "q2_recovery_request_bounded", "q2_bookkeeping_invariant", "q2_recovery_inside_body", "q2_burst_bounded",
                     "q2_recovery_numbers_20bit", "q2_requests_20bit"]
RULE = ("qreq / qsend: one coap_request_missing_q_block2 on received-block sets aimed at payload-set boundaries (with / without the M variant, total_len around block boundaries and beyond 2^20 blocks) and coap_send_q_blocks from every position relative to a payload-set boundary and the end of the body, against Model/QBlock.lean reqMissingQ2 / sendQNon; q408 / qenc / qset: RFC 9177 — a client in the middle of a Q-Block1 transfer is handed 4.08 responses whose missing-blocks payload is well-formed (in / out of order, duplicates, blocks at and beyond the end of the body, beyond 2^20), non-canonical, of another major type, cut anywhere, random, up to 1 KiB; the server's add_408_block encoder on edge numbers; the Q-Block2 payload-set tests and the missing-blocks walk on received-block sets; "
        "hseq: sequences of 1-8 hostile datagrams (targeted at the state: matching token/mid/path, hostile Block/Observe/ETag/OSCORE option values; field-mutated; random) delivered to a live server (idle / holding an observation / holding a partial Block1 body) or to a client with an outstanding request, from the peer's own or a foreign address, followed by a canary request that must be answered; "
        "hparse: byte strings (blind random at lengths 0..64 and a few long ones; valid encodings; 1-4 field-level mutations of valid "
        "encodings) through the receive gate for udp/tcp/ws at log levels 0, 4, 7, 8 under ASan+UBSan with a null log handler so that "
        "the debug dump in coap_pdu_parse_opt and coap_show_pdu walk the PDU again; non-trivial = distinct input that is not a blind "
        "string shorter than a header")
TRUSTED_BASE = ["Lean 4.33 kernel; axioms allowed: propext, Classical.choice, Quot.sound (audited per theorem each run)",
                "ASan/UBSan (and valgrind, thorough) as observers of the compiled C: memory safety of the compiled code is observed on the inputs run, not proved",
                "harness/hostile.c reproduces the gate of coap_handle_dgram / coap_read_session without a session (sequences in live endpoint states: sim part)",
                "M (Model/Parse.lean, Model/Gate.lean) is a hand transcription, checked against the compiled code on the cases run"]
ASSUMPTIONS = ["termination = totality of the Lean model functions (fuel bounded by input length); the compiled C is watched by a per-shard timeout",
               "partial: memory safety / UAF / uninitialised reads of the compiled C are sanitizer observations"]
RUN_KW = {"timeout": 600}


def extract(ctx):
    from vlib import tables
    d = tables.extract_consts()
    out = ["Generated.Consts (COAP_DEFAULT_MTU=%d)" % d["COAP_DEFAULT_MTU"]]
    for P in (_p9(), _p5()):                     # the borrowed model ops read the owners' regenerated tables
        if hasattr(P, "extract"):
            out += P.extract(ctx)
    return out


def harness(ctx):
    return C.build_harness("hostile", C.build_libcoap())


def harness_seq(ctx):
    from vlib import simlib
    return simlib.build_sim_harness("hostile_seq")


def _p9():
    import props.C09 as P9
    return P9


def _p5():
    import props.C05 as P5
    return P5


# The readers behind the gate that other properties own are run here too, on their hostile-peer inputs only, with the owners'
# harness, model ops and oracle (what a hostile peer can make the block-wise code and the stream readers do is C02's subject):
#   crcv / srcv2 / xmit1 (props/C09.py gen_*_hostile): a server / client that sends inconsistent Block / Size options — the
#     application must never be handed bytes nobody wrote (two runs with different allocation poisons must agree), no leak, no crash;
#   tcp / ws (props/C05.py): byte streams incl. malformed frames and upgrade requests — no crash, no spin (per-line watchdog).
BORROWED_C09 = ("crcv", "srcv2", "xmit1")
BORROWED_C05 = ("tcp", "ws")
# C02's own ops on the Q-Block (RFC 9177) code of src/coap_block.c; they run in C09's harness (harness/block.c #includes
# coap_block.c, wraps the allocator: ` LEAK=n`, ` UNINIT`), the model is Model/QBlock.lean (Driver/QBlock.lean):
#   q408  a client in the middle of a Q-Block1 transfer is handed 4.08 responses with arbitrary payloads (the missing-blocks
#         CBOR sequence): blocks sent again, how the branch ends, no read behind the payload (ASan-poisoned), no leak;
#   qenc  the server's add_408_block() encoder;  qset  the Q-Block2 payload-set tests and the gap walk of the missing-blocks loops
QBLOCK_OPS = ("q408", "qenc", "qset", "qreq", "qsend")
HARNESS_FOR_OP = {"hparse": harness, "hseq": harness_seq,
                  "q408": lambda ctx: _p9().harness(ctx), "qenc": lambda ctx: _p9().harness(ctx), "qset": lambda ctx: _p9().harness(ctx),
                  "qreq": lambda ctx: _p9().harness(ctx), "qsend": lambda ctx: _p9().harness(ctx),
                  "crcv": lambda ctx: _p9().harness(ctx), "srcv2": lambda ctx: _p9().harness(ctx), "xmit1": lambda ctx: _p9().harness(ctx),
                  "tcp": lambda ctx: _p5().harness(ctx), "ws": lambda ctx: _p5().harness(ctx)}


def gen_borrowed(ctx, escalate=False):
    P9, P5 = _p9(), _p5()
    n = (1500 if ctx.thorough() else 300) * (2 if escalate else 1)
    out = P9.gen_crcv_hostile(ctx.rng, n) + P9.gen_srcv_hostile(ctx.rng, n) + P9.gen_xmit1_hostile(ctx.rng, n // 2) + \
        [l for l in P9.gen_crcv(ctx.rng, n) if l.split(" ", 1)[0] in BORROWED_C09]     # incl. ETag changes (transfer restart)
    cov = dict(ctx.cov)
    out += P5.gen_tcp(ctx, n, 8, 4) + P5.gen_ws(ctx, n // 2, 6, 4) + P5.gen_ws_empty_runs(ctx, 6)
    ctx.cov.clear(); ctx.cov.update(cov)        # the owners' coverage notes belong to their own evidence
    return out


def hx(b):
    return b.hex() if b else "-"


def cbor_uint(rng, v, canonical=True):
    """one CBOR unsigned integer; non-canonical = a longer form than needed (a decoder must cope)"""
    forms = [f for f, lim in ((0, 24), (1, 256), (2, 65536), (4, 2 ** 32), (8, 2 ** 64)) if v < lim]
    f = forms[0] if canonical or rng.random() < 0.6 else rng.choice(forms)
    if f == 0:
        return bytes([v])
    return bytes([{1: 24, 2: 25, 4: 26, 8: 27}[f]]) + v.to_bytes(f, "big")


def missing_blocks_payload(rng, nb):
    """the payload of a 4.08 (application/missing-blocks+cbor-seq) a hostile server sends to a client whose body has nb blocks:
    well-formed lists (in order, out of order, duplicates, numbers at and beyond the end of the body, beyond 2^20, 2^32-1),
    non-canonical and 8-byte integers, other major types, reserved additional information, cut anywhere (in particular right
    behind an initial byte and one byte short), random bytes, up to 1 KiB"""
    c = rng.random()
    if c < 0.08:
        return G.rbytes(rng, rng.choice([1, 2, 3, 4, 5, 8, 40]))
    edge = [0, 1, nb - 1, nb - 1, nb, nb + 1, 23, 24, 255, 256, 65535, 65536, 2 ** 20 - 1, 2 ** 20, 2 ** 31, 2 ** 32 - 1]
    n = rng.choice([1, 1, 2, 3, 5, 12, 300]) if c < 0.97 else 1
    out = b""
    for _ in range(n):
        v = rng.choice(edge) if rng.random() < 0.35 else rng.randint(0, max(nb + 2, 3))
        item = cbor_uint(rng, v, rng.random() < 0.8)
        r = rng.random()
        if r < 0.05:
            item = bytes([item[0] | rng.choice([0x20, 0x40, 0x80, 0xe0])]) + item[1:]         # another major type
        elif r < 0.09:
            item = bytes([rng.choice([27, 28, 29, 30, 31])]) + item[1:]                       # 8-byte / reserved / indefinite
        elif r < 0.12:
            item = bytes([26]) + G.rbytes(rng, 4)
        out += item
    r = rng.random()
    if r < 0.3:
        out = out[:rng.randint(1, len(out))]                                                  # cut anywhere
    elif r < 0.4:
        out += bytes([rng.choice([24, 25, 26, 26, 26, 27])]) + G.rbytes(rng, rng.choice([0, 1, 2, 3, 3, 3]))   # an initial byte and too few bytes
    return out[:1024]


def gen_qblock(ctx, n):
    rng = ctx.rng
    out = []
    for _ in range(n):
        szx = rng.choice([0, 0, 0, 1, 2, 6])
        chunk = 16 << szx
        nb = rng.choice([2, 3, 7, 11, 25, 40])
        body_len = (nb - 1) * chunk + rng.choice([1, chunk // 2, chunk - 1, chunk])
        fmt = rng.choice(["272"] * 12 + ["-", "0", "60", "273", "65535"])
        typ = rng.choice([1] * 10 + [0, 2, 3])
        items = [hx(missing_blocks_payload(rng, nb)) for _ in range(rng.choice([1, 1, 2, 3]))]
        if rng.random() < 0.03:
            items = ["-"] if len(items) == 1 else items
        out.append("q408 %d %d %d %d %s %d %s" % (szx, body_len, rng.randint(0, 255), rng.choice([1, 2, 3, 10, 10, 10, 255]), fmt, typ,
                                                  ";".join(i for i in items if i != "-") or "-"))
    for _ in range(n // 3):
        k = rng.choice([0, 1, 2, 5, 30])
        ns = [rng.choice([0, 23, 24, 255, 256, 65535, 65536, 2 ** 20 - 1, 2 ** 20, 2 ** 20 + 1, 2 ** 31 - 1]) if rng.random() < 0.4
              else rng.randint(0, 2 ** 20 + 10) for _ in range(k)]
        out.append("qenc %s" % (",".join(map(str, ns)) or "-"))
    for _ in range(n // 2):
        mp = rng.choice([1, 2, 3, 10, 10, 16])
        top = rng.choice([8, 30, 60, 250])
        k = rng.choice([0, 1, 2, 4, 8, 20])
        c = rng.random()
        ns = [rng.randint(0, top) for _ in range(k)]
        if c < 0.3:
            ns.sort()
        elif c < 0.4:
            ns.sort(reverse=True)
        elif c < 0.6:
            ns = list(range(0, rng.randint(0, top))) + ns          # a received prefix, then scattered blocks
        out.append("qset %d %d %s" % (mp, rng.choice([0, 0, 1, 2, top // mp, rng.randint(0, 30)]), ",".join(map(str, ns)) or "-"))
    # qreq: ONE coap_request_missing_q_block2 on received-block sets aimed at payload-set boundaries: gaps that straddle a
    # boundary, a received prefix that ends one short of / at / one behind a boundary, trailing blocks up to total_len (in / not
    # in the payload set of the first gap), total_len at / one byte around a block boundary, the M variant
    for _ in range(n // 2):
        mp = rng.choice([1, 2, 3, 3, 4, 10, 10, 16])
        szx = rng.choice([0, 0, 0, 1, 2, 6])
        chunk = 16 << szx
        nb = rng.choice([1, 2, mp - 1, mp, mp + 1, 2 * mp, 2 * mp + 1, 3 * mp - 1, 7, 25, 60])
        nb = max(nb, 1)
        c = rng.random()
        if c < 0.35:
            ns = list(range(0, rng.choice([0, 1, mp - 1, mp, mp + 1, 2 * mp - 1, 2 * mp, rng.randint(0, nb)])))
        elif c < 0.5:
            ns = []
        else:
            ns = list(range(0, rng.choice([0, 0, 1, mp, rng.randint(0, nb)])))
        for _ in range(rng.choice([0, 0, 1, 2, 4, 9])):
            ns.append(rng.choice([rng.randint(0, nb + 2), rng.randint(0, nb + 2), mp - 1, mp, mp + 1, 2 * mp, nb - 1, nb, 2 ** 20 - 1]))
        if rng.random() < 0.3:
            rng.shuffle(ns)
        total = max(0, nb * chunk - rng.choice([0, 0, 1, chunk - 1, chunk, chunk + 1]) + rng.choice([0, 0, 0, 1]))
        if rng.random() < 0.06:
            total = rng.choice([0, 1, 2 ** 24, 2 ** 24 + 1, 2 ** 31 - 1])
        out.append("qreq %d %d %d %d %s" % (mp, rng.choice([0, 0, 1]), szx, total, ",".join(map(str, ns)) or "-"))
    # qreq at the end of the number space (fix 00bcbc1): the last blocks recorded, total_len at / around / far beyond 2^20 blocks
    for _ in range(max(8, n // 12)):
        mp = rng.choice([1, 2, 3, 4, 10, 16])
        szx = rng.choice([0, 0, 1, 2, 6])
        top = 2 ** 20
        ns = list(range(top - rng.choice([1, 1, 2, mp, mp + 1, 2 * mp]), top))
        if rng.random() < 0.4:
            ns = [x for x in ns if rng.random() < 0.7] or [top - 1]
        if rng.random() < 0.3:
            ns = list(range(0, rng.choice([1, mp, mp + 1]))) + ns
        total = (top << (szx + 4)) + rng.choice([-(16 << szx), -1, 0, 1, 1, 16 << szx, 12345, 2 ** 30])
        total = min(total, 2 ** 31 - 1)
        out.append("qreq %d %d %d %d %s" % (mp, rng.choice([0, 1, 1]), szx, total, ",".join(map(str, ns))))
    # qsend: coap_send_q_blocks from every position relative to a payload-set boundary and to the end of the body
    for _ in range(n // 3):
        mp = rng.choice([1, 2, 3, 3, 4, 10, 10, 16, 255])
        szx = rng.choice([0, 0, 0, 1, 2, 6])
        chunk = 16 << szx
        nb = rng.choice([2, 3, mp, mp + 1, 2 * mp, 2 * mp + 1, 7, 25, 40])
        nb = max(2, min(nb, 60000 // chunk))
        body_len = (nb - 1) * chunk + rng.choice([1, chunk // 2, chunk - 1, chunk])
        num = rng.choice([0, 1, mp - 2, mp - 1, mp, mp + 1, 2 * mp - 1, nb - 3, nb - 2, nb - 1, nb, nb + 1, rng.randint(0, nb), 2 ** 20 - 1])
        out.append("qsend %d %d %d %d %d" % (mp, szx, body_len, max(0, num), rng.choice([1, 1, 1, 0])))
    return out


def judge_qblock(ctx, c):
    i, m = c["impl"], c["model"]
    if i is None or i.startswith("crash"):
        return ("spec", "the real Q-Block code aborted on this input: %s" % i)
    if " UNINIT" in i:
        return ("spec", "what the client does with this 4.08 depends on bytes nobody wrote: %s" % i[:150])
    if " LEAK=" in i:
        return ("spec", "memory is leaked on this input: %s" % i[:150])
    w = c["input"].split()
    if w[0] == "qreq" and i.startswith("ranges="):
        # I against the property: one recovery request = at most MAX_PAYLOADS options, strictly increasing, of ONE payload set,
        # in the transfer's block size, each below a recorded block or with its offset inside total_len
        mp, szx, total = int(w[1]), int(w[3]), int(w[4])
        rec = [int(x) for x in w[5].split(",")] if w[5] != "-" else []
        req = i.split()[1][4:]
        if "!" in req or "unparsable" in req:
            return ("spec", "a recovery request carries a Q-Block2 option in another block size / is not a CoAP message: %s" % req[:120])
        qs = [tuple(map(int, t.split("."))) for t in req.split(",")] if req != "-" else []
        nums = [q[0] for q in qs]
        if len(qs) > mp or any(a >= b for a, b in zip(nums, nums[1:])) or len({n // mp for n in nums}) > 1:
            return ("spec", "a recovery request names more than MAX_PAYLOADS blocks / a block twice / blocks of several payload sets: %s" % req[:150])
        for n in nums:
            if n >= 2 ** 20:
                return ("spec", "a recovery request names block %d: not a 20-bit number" % n)
            if not (n * (16 << szx) < total or any(n < r for r in rec)):
                return ("spec", "a recovery request names block %d: beyond total_len %d and above every recorded block" % (n, total))
    if w[0] == "qsend" and i.startswith("first="):
        mp, szx, body_len, num = int(w[1]), int(w[2]), int(w[3]), int(w[4])
        chunk = 16 << szx
        for part, start in ((i.split()[0][6:], 0), (i.split()[1][5:] if len(i.split()) > 1 and i.split()[1].startswith("next=") else "-", num + 1)):
            ts = part.split("+") if part != "-" else []
            if any("!" in t or "." not in t for t in ts):
                return ("spec", "coap_send_q_blocks sent something that is not a block of the body: %s" % part[:150])
            bl = [tuple(map(int, t.split(":")[0].split("."))) + (int(t.split(":")[1]),) for t in ts]
            if len(bl) > mp + (1 if start == 0 and mp <= 2 else 0):
                return ("spec", "a burst of %d datagrams with MAX_PAYLOADS %d" % (len(bl), mp))
            for k, (n, mm, ln) in enumerate(bl):
                if n != start + k or n * chunk >= body_len or ln != min(chunk, body_len - n * chunk) or mm != (1 if (n + 1) * chunk < body_len else 0):
                    return ("spec", "coap_send_q_blocks sent %d.%d:%d: not the next block of the body (%d bytes, block size %d)" % (n, mm, ln, body_len, chunk))
    if w[0] == "q408" and not i.startswith("bad-op"):
        # I against the property: whatever the payload says, a block sent again is a block of the body, with its exact bytes' length
        szx, body_len = int(w[1]), int(w[2])
        chunk = 16 << szx
        for item in i.split()[2:-1] if len(i.split()) > 3 else []:
            for it in item.split(","):
                tx = it.split(":", 1)[1].rsplit("/", 1)[0]
                for t in ([] if tx == "-" else tx.split("+")):
                    if not t.startswith("b"):
                        return ("spec", "a retransmission without Q-Block1 option: %s" % t)
                    num, mm, sz = map(int, t[1:].split(":")[0].split("."))
                    ln = int(t.split(":")[1])
                    if num * chunk >= body_len or sz != szx or ln != min(chunk, body_len - num * chunk) or mm != (1 if (num + 1) * chunk < body_len else 0):
                        return ("spec", "a 4.08 made the client send a block that is not a block of its body: %s (body %d bytes, block size %d)" % (t, body_len, chunk))
    if i != m:
        return ("tie", "Q-Block op: implementation %s, model %s" % (i[:200], (m or "")[:200]))
    return None


def generate(ctx, escalate=False):
    rng = ctx.rng
    n = 300000 if ctx.thorough() else 40000
    if escalate:
        n *= 2
    out = []
    for i in range(n):
        proto = rng.choice(["udp", "udp", "tcp", "ws"])
        lvl = rng.choice([0, 4, 7, 7, 8])
        c = rng.random()
        if c < 0.04:
            b = G.edge_fields(rng, proto)
        elif c < 0.3:
            ln = rng.choice([0, 1, 2, 3, 4, 5, 6, 7, 8, 10, 12, 16, 24, 32, 64]) if rng.random() < 0.95 else rng.choice([300, 1500, 70000])
            b = G.rbytes(rng, ln)
            if proto == "udp" and b and rng.random() < 0.7:
                b = bytes([0x40 | (b[0] & 0x3F)]) + b[1:]      # right version so that the parser is reached
        else:
            m = G.gen_msg(rng, big=rng.random() < 0.003, valid_len=rng.random() < 0.7)
            if rng.random() < 0.15 and m[1] != 0:
                # an OSCORE option with a structured value as the LAST bytes of the message (debug printing decodes it)
                typ, code, mid, tok, opts, pl = m
                opts = [o for o in opts if o[0] < 9] + [(9, oscore_value(rng))]
                m = (typ, code, mid, tok, opts, b"")
            b = G.encode(proto, *m)
            if c < 0.85:
                for _ in range(rng.choice([1, 1, 2, 3, 4])):
                    b = G.mutate(rng, b)
        out.append("hparse %s %d %s" % (proto, lvl, hx(b)))
    out += gen_sequences(ctx, (12000 if ctx.thorough() else 1500) * (2 if escalate else 1))
    out += gen_borrowed(ctx, escalate)
    out += gen_qblock(ctx, (6000 if ctx.thorough() else 1200) * (2 if escalate else 1))
    return out


SCENARIOS = ["idle", "obs", "blk", "blk0", "cli", "b2", "b2", "osc", "osc", "qb1", "qb1", "qb2", "qb2", "qc2", "qc2", "qc2"]


def oscore_aimed(rng):
    """an OSCORE option aimed at the server's security context of scenario osc: the right kid ("client") or a near miss, with a kid
    context that is a CBOR byte string head in all its forms (short, 1/2/4/8 length bytes, cut short, announcing far more than follows)"""
    n = rng.choice([0, 1, 1, 2, 5])
    piv = G.rbytes(rng, n)
    kid = rng.choice([b"client", b"client", b"client", b"clien", b"clientx", b"", b"server"])
    c = rng.random()
    if c < 0.25:
        kc = b""
    else:
        ln = rng.choice([0, 1, 8, 23, 24, 255, 256, 65535, 65536, 2 ** 32 - 16, 2 ** 32 - 1, 2 ** 63, 2 ** 64 - 1, rng.randint(0, 40)])
        head = bytes([0x40 | ln]) if ln < 24 and rng.random() < 0.8 else \
            bytes([0x58, ln & 0xFF]) if ln < 256 and rng.random() < 0.7 else \
            bytes([0x59]) + (ln & 0xFFFF).to_bytes(2, "big") if ln < 65536 and rng.random() < 0.7 else \
            bytes([0x5a]) + (ln & 0xFFFFFFFF).to_bytes(4, "big") if ln < 2 ** 32 and rng.random() < 0.7 else \
            bytes([0x5b]) + (ln & (2 ** 64 - 1)).to_bytes(8, "big")
        if rng.random() < 0.15:
            head = bytes([rng.choice([0x5c, 0x5f, 0x18, 0x98, 0xff, 0x1b])]) + head[1:]     # other major types / reserved additional info
        body = G.rbytes(rng, min(ln, rng.choice([0, 1, 8, 16, 40])))
        kc = head + body
        if rng.random() < 0.3:
            kc = kc[:rng.randint(1, len(kc))]
        kc = kc[:200]
    flags = n | 0x08 | (0x10 if kc else 0)
    v = bytes([flags]) + piv + (bytes([len(kc)]) + kc if kc else b"") + kid
    if rng.random() < 0.1:
        v = v[:rng.randint(0, len(v))]
    return v


def proxyish(rng):
    """a Proxy-Uri value assembled from URI parts, each in well-formed and broken variants (unterminated IPv6 reference,
    empty / overlong / non-numeric port, scheme prefixes), then possibly cut anywhere: the server parses it in place in the
    PDU buffer, and as the LAST bytes of the datagram nothing but the end of the buffer follows it"""
    scheme = rng.choice([b"coap", b"coap", b"coaps", b"coap+tcp", b"coap+ws", b"http", b"coa", b"coapx", b"", b"COAP"])
    sep = rng.choice([b"://", b"://", b"://", b":/", b":", b"//", b""])
    host = rng.choice([b"myhost", b"myhost", b"other", b"[::1]", b"[::1", b"[", b"[]", b"[::1]x", b"[::1]]", b"[[::1]", b"1.2.3.4", b"",
                       b"my%68ost", b"MYHOST", b"[fe80::1%25eth0]", b"a" * rng.randint(1, 40)])
    port = rng.choice([b"", b"", b"", b":", b":0", b":5683", b":65535", b":65536", b":99999999999999999999", b":5x", b":-1", b": 1"])
    tail = rng.choice([b"", b"", b"/", b"/r", b"/r?a=b", b"?", b"?a", b"/%", b"/%4", b"/%zz", b"/a/../b", b"/.", b"/..", b"#f", b"/r#"]) \
        if rng.random() < 0.8 else b"/" + uriish(rng)
    v = scheme + sep + host + port + tail
    if rng.random() < 0.3:
        v = v[:rng.randint(0, len(v))]
    return v


def block2_get(rng, scen):
    """GET with a Block2 option aimed at the ends of the bodies the server serves block-wise itself: /L (100 bytes: blocks 0..6
    of 16, the last one partial), /.well-known/core (a listing of some 40 bytes), and the plain resources"""
    path = rng.choice([[b"L"], [b"L"], [b"L"], [b".well-known", b"core"], [b".well-known", b"core"], [b"r"], [b"o"], [b"x"]])
    szx = rng.choice([0, 0, 0, 0, 1, 2, 3, 6, 7])
    bs = 16 << min(szx, 6)
    edge = (100 + bs - 1) // bs
    num = rng.choice([0, 1, 2, 3, edge - 1, edge, edge, edge + 1, 6, 7, 7, 8, 63, 2 ** 20 - 1])
    m = rng.choice([0, 0, 0, 1])
    v = num << 4 | m << 3 | szx
    blk = v.to_bytes(3, "big").lstrip(b"\0")
    opts = [(11, seg) for seg in path] + [(rng.choice([23, 23, 23, 23, 31]), blk)]
    if rng.random() < 0.15:
        opts.append((15, uriish(rng)))
    if rng.random() < 0.1:
        opts.append((28, G.rbytes(rng, rng.randint(0, 3))))
    if rng.random() < 0.1:
        opts.append((6, G.rbytes(rng, rng.randint(0, 2))))
    opts.sort(key=lambda o: o[0])
    tok = rng.choice([b"\xab\xcd", b"\xab\xcd", b"\xab\xcd", b"", G.rbytes(rng, rng.randint(1, 8))])
    return G.encode("udp", rng.choice([0, 0, 1]), rng.choice([1, 1, 1, 5]), rng.randint(0x1001, 0x1100), tok, opts, b"")


def oscore_value(rng):
    """a (possibly truncated / inconsistent) compressed COSE object: flag byte n | k<<3 | h<<4, Partial IV, [s, kid context], kid"""
    n = rng.choice([0, 1, 2, 5, 6, 7])
    k = rng.randint(0, 1)
    h = rng.randint(0, 1)
    v = bytes([n | k << 3 | h << 4 | rng.choice([0, 0, 0, 0x20, 0x80])]) + G.rbytes(rng, n if n < 6 else rng.randint(0, 7))
    if h:
        s_len = rng.choice([0, 1, 3, 8, 40, 200, 255])
        v += bytes([s_len]) + G.rbytes(rng, rng.choice([s_len, s_len, max(0, s_len - 1), 0]))
    if k:
        v += G.rbytes(rng, rng.randint(0, 7))
    if rng.random() < 0.5:
        v = v[:rng.randint(0, len(v))]            # truncated anywhere, including right after the flag byte
    return v


def uriish(rng, n=None):
    """bytes biased to the characters the URI reconstruction code escapes or treats specially"""
    n = rng.randint(0, 14) if n is None else n
    return bytes(rng.choice(b"&&&%%/??=.#ab01 \"\x00\xc3\xa9~+;") if rng.random() < 0.8 else rng.getrandbits(8) for _ in range(n))


def block_storm(rng):
    """5..12 Block1 PUTs of one body (same token) whose block numbers arrive sparse and out of order — the received-ranges
    structure has a fixed capacity"""
    szx = rng.choice([0, 0, 1, 2])
    bs = 16 << szx
    n = rng.randint(5, 12)
    nums = rng.sample(range(0, 60, rng.choice([2, 2, 3])), n)
    c = rng.random()
    if c < 0.4: nums.sort(reverse=True)
    elif c < 0.6: nums.sort()
    out = []
    for i, num in enumerate(nums):
        v = num << 4 | 1 << 3 | szx
        blk = v.to_bytes(3, "big").lstrip(b"\0") or b"\0"
        opts = [(11, b"b"), (27, blk)]
        if rng.random() < 0.3:
            opts.append((60, (bs * 64).to_bytes(2, "big")))
        out.append(G.encode("udp", 0, 3, 0x2000 + i, b"\xab\xcd", sorted(opts, key=lambda o: o[0]), G.rbytes(rng, bs)))
    return out


def qblock_dgram(rng, scen):
    """RFC 9177 traffic aimed at a server that holds a partial Q-Block1 body (qb1: 80 bytes announced, block 0 of 16 received)
    or the body of /L for Q-Block2 (qb2: 100 bytes = blocks 0..6 of 16): payload sets out of order / duplicated / beyond the
    end, SZX changing in mid-transfer (incl. 7 = BERT on a datagram transport), M bits that contradict the sizes, Size1 that
    changes, Q-Block and Block options mixed, GETs with SEVERAL Q-Block2 options (the missing-blocks form) and `continue` requests"""
    tok = rng.choice([b"\xab\xcd", b"\xab\xcd", b"\xab\xcd", G.rbytes(rng, rng.randint(0, 8))])
    mid = rng.randint(0x1001, 0x1200)
    typ = rng.choice([1, 1, 1, 0])

    def blkval(num, m, szx):
        return ((num << 4) | (m << 3) | szx).to_bytes(3, "big").lstrip(b"\0")
    szx = rng.choice([0, 0, 0, 0, 1, 2, 6, 7])
    bs = 16 << min(szx, 6)
    if scen == "qb1" and rng.random() < 0.75:
        num = rng.choice([0, 1, 1, 2, 3, 4, 4, 5, 9, 10, 11, 19, 20, 1000, 2 ** 20 - 1])
        m = rng.choice([1, 1, 1, 0])
        opts = [(11, rng.choice([b"b", b"b", b"b", b"r"])), (rng.choice([19, 19, 19, 19, 27]), blkval(num, m, szx))]
        if rng.random() < 0.6:
            opts.append((60, rng.choice([80, 80, 80, 16, 17, 81, 2 ** 16, 2 ** 32 - 1, 0]).to_bytes(4, "big").lstrip(b"\0")))
        if rng.random() < 0.1:
            opts.append((27, blkval(rng.randint(0, 5), rng.randint(0, 1), rng.choice([0, 1]))))       # Block1 AND Q-Block1
        if rng.random() < 0.15:
            opts.append((292, G.rbytes(rng, rng.randint(0, 8))))
        pl = G.rbytes(rng, rng.choice([bs, bs, bs, bs - 1, bs + 1, 1, 0, 2 * bs]) if bs <= 256 else rng.choice([bs, 16, 0]))
        return G.encode("udp", typ, rng.choice([3, 3, 3, 2, 5]), mid, tok, sorted(opts, key=lambda o: o[0]), pl)
    nums = [rng.choice([0, 1, 2, 5, 6, 6, 7, 8, 10, 63, 2 ** 20 - 1]) for _ in range(rng.choice([1, 1, 2, 3, 7, 12]))]
    opts = [(11, rng.choice([b"L", b"L", b"L", b"r", b"b"]))] + [(31, blkval(n, rng.choice([0, 0, 1]), szx if rng.random() < 0.8 else rng.randint(0, 7))) for n in nums]
    if rng.random() < 0.1:
        opts.append((23, blkval(rng.randint(0, 7), 0, rng.choice([0, 1]))))                           # Block2 AND Q-Block2
    if rng.random() < 0.1:
        opts.append((6, G.rbytes(rng, rng.randint(0, 2))))
    return G.encode("udp", typ, rng.choice([1, 1, 1, 5]), mid, tok, sorted(opts, key=lambda o: o[0]), b"")


def qc2_dgram(rng):
    """a response aimed at a CLIENT in the middle of a Q-Block2 transfer (scenario qc2: GET /L, token abcd, body of 100 bytes = blocks
    0..6 of 16, ETag 01, Size2 100, MAX_PAYLOADS 10; blocks 0 and 2 received): blocks out of order / duplicated / beyond the end /
    at the end of the number space, SZX, ETag, Size2, Content-Format changing or missing, M bits contradicting the sizes, payload
    set boundaries (9, 10, 11, 19, 20), Block2 and Q-Block2 mixed, other response codes"""
    tok = rng.choice([b"\xab\xcd"] * 6 + [bytes.fromhex("200000000001"), bytes.fromhex("200000000002"), G.rbytes(rng, rng.randint(0, 8))])
    szx = rng.choice([0, 0, 0, 0, 0, 1, 2, 6, 7])
    bs = 16 << min(szx, 6)
    num = rng.choice([0, 1, 1, 3, 4, 5, 6, 6, 7, 8, 9, 10, 11, 19, 20, 63, 1000, 2 ** 20 - 2, 2 ** 20 - 1])
    m = rng.choice([1, 1, 0]) if num != 6 else rng.choice([0, 0, 1])
    v = ((num << 4) | (m << 3) | szx).to_bytes(3, "big").lstrip(b"\0")
    opts = [(rng.choice([31] * 8 + [23, 27]), v)]
    c = rng.random()
    if c < 0.7:
        opts.append((4, b"\x01"))
    elif c < 0.85:
        opts.append((4, rng.choice([b"\x02", b"", b"\x01\x00", G.rbytes(rng, rng.randint(1, 8))])))
    c = rng.random()
    if c < 0.6:
        opts.append((28, b"\x64"))
    elif c < 0.85:
        opts.append((28, rng.choice([99, 101, 112, 113, 16, 0, 2 ** 24, 2 ** 24 + 1, 2 ** 30, 2 ** 32 - 1, (num + 1) * bs, (num + 1) * bs + 1]).to_bytes(4, "big").lstrip(b"\0")))
    if rng.random() < 0.6:
        opts.append((12, b"" if rng.random() < 0.8 else rng.choice([b"\x2a", b"\x01\x10"])))
    if rng.random() < 0.08:
        opts.append((23, ((rng.randint(0, 7) << 4) | (rng.randint(0, 1) << 3) | rng.choice([0, 1])).to_bytes(2, "big").lstrip(b"\0")))
    if rng.random() < 0.06:
        opts.append((6, G.rbytes(rng, rng.randint(0, 3))))
    if rng.random() < 0.05:
        opts.append((252, G.rbytes(rng, rng.randint(0, 4))))
    last = 4 if num == 6 and szx == 0 else bs
    pl = G.rbytes(rng, rng.choice([last, last, last, bs, bs - 1, bs + 1, 1, 0, 2 * bs]) if bs <= 256 else rng.choice([bs, 16, 4, 0]))
    code = rng.choice([69] * 10 + [68, 65, 95, 132, 136, 128, 160, 162])
    return G.encode("udp", rng.choice([1, 1, 1, 1, 0, 2]), code, rng.randint(0, 0xFFFF), tok, sorted(opts, key=lambda o: o[0]), pl)


def targeted(rng, scen):
    """a datagram aimed at the state the scenario set up: matching token/mid/paths, hostile option values"""
    if scen == "qc2":
        if rng.random() < 0.85:
            return qc2_dgram(rng)
        scen = "cli"
    if scen in ("qb1", "qb2"):
        if rng.random() < 0.8:
            return qblock_dgram(rng, scen)
        scen = "blk" if scen == "qb1" else "b2"
    tok = rng.choice([b"\xab\xcd", b"\xab\xcd", b"", G.rbytes(rng, rng.randint(1, 8))])
    mid = rng.choice([0x1000, 0x1001, 0x0fff, rng.randint(0, 0xFFFF)])
    typ = rng.randint(0, 3)
    uint = lambda: G.rbytes(rng, rng.choice([0, 1, 2, 3, 3, 4]))
    if scen == "cli":
        code = rng.choice([69, 68, 65, 95, 132, 128, 160, 0, 0, 224, 1, rng.randint(0, 255)])
        opts = []
        for num in rng.sample([6, 4, 12, 14, 23, 27, 28, 60, 252, 258, 9], rng.randint(0, 4)):
            opts.append((num, uint() if num != 9 else oscore_value(rng)))
    else:
        code = rng.choice([1, 2, 3, 4, 5, 6, 7, 0, 31, rng.randint(0, 255)])
        path = rng.choice([b"r", b"o", b"b", b"b", b".well-known", b"x"])
        opts = [(11, path)]
        if path == b".well-known":
            opts.append((11, b"core"))
        for num in rng.sample([6, 4, 1, 5, 12, 14, 17, 19, 23, 27, 28, 31, 60, 252, 258, 292, 9, 15, 35, 39, 16, 3, 7], rng.randint(0, 5)):
            opts.append((num, oscore_value(rng) if num == 9 else uint() if num not in (15, 35, 39, 3) else uriish(rng)))
        if rng.random() < 0.3:
            opts += [(15, uriish(rng)) for _ in range(rng.randint(1, 3))]     # several Uri-Query options: the reconstructed query string
        if rng.random() < 0.15:
            opts.append((rng.choice([2, 10, 13, 29, 65001, 65535]), G.rbytes(rng, rng.randint(0, 4))))   # unknown, some critical
    if scen != "cli" and rng.random() < (0.5 if scen == "b2" else 0.12):
        return block2_get(rng, scen)
    if scen == "osc" and rng.random() < 0.7:
        # a "protected" request: code POST/FETCH (or anything), the aimed OSCORE option, a ciphertext of some length
        opts = [(9, oscore_aimed(rng))]
        if rng.random() < 0.2:
            opts.append((rng.choice([6, 11, 23, 27, 60, 258]), uint()))
        opts.sort(key=lambda o: o[0])
        pl = G.rbytes(rng, rng.choice([0, 1, 7, 8, 9, 12, 24, 64]))
        return G.encode("udp", rng.choice([0, 0, 1]), rng.choice([2, 2, 5, 1, 69, rng.randint(0, 255)]), mid, tok, opts, pl)
    if scen != "cli" and rng.random() < 0.12:
        # a request to be proxied: Proxy-Uri (35) as the last option, mostly without payload; sometimes Proxy-Scheme (39) + Uri-Host
        opts = [(35, proxyish(rng))] if rng.random() < 0.8 else [(3, rng.choice([b"myhost", b"other", b"", uriish(rng)])), (39, rng.choice([b"coap", b"http", b"", uriish(rng)]))]
        if rng.random() < 0.2:
            opts.append((16, G.rbytes(rng, rng.randint(0, 2))))
        if rng.random() < 0.15:
            opts.append((11, rng.choice([b"r", b"x"])))
        opts.sort(key=lambda o: o[0])
        return G.encode("udp", rng.choice([0, 0, 1]), rng.choice([1, 1, 2, 3, 4, 5, 6, 7]), mid, tok, opts, b"" if rng.random() < 0.85 else G.rbytes(rng, 3))
    if scen != "cli" and rng.random() < 0.25:
        # a block-wise request the way a peer would really send it (with or without Size1): NUM, M, SZX chosen freely
        szx = rng.choice([0, 0, 1, 2, 6, 7])
        num = rng.choice([0, 0, 1, 2, 3, 1000, 2 ** 20 - 1])
        m = rng.randint(0, 1)
        v = num << 4 | m << 3 | szx
        blk = v.to_bytes(3, "big").lstrip(b"\0")
        opts = [(11, rng.choice([b"b", b"b", b"r", b"o"])), (rng.choice([27, 27, 23, 19, 31]), blk)]
        if rng.random() < 0.4:
            opts.append((60, bytes([rng.choice([16, 32, 48, 200])])))
        if rng.random() < 0.2:
            opts.append((292, G.rbytes(rng, rng.randint(0, 8))))
        opts.sort(key=lambda o: o[0])
        bs = 16 << min(szx, 6)
        pl = G.rbytes(rng, rng.choice([bs, bs, bs - 1, bs + 1, 1, 0]))
        return G.encode("udp", rng.choice([0, 0, 1]), rng.choice([2, 3, 3, 5, 1]), mid, tok, opts, pl)
    opts.sort(key=lambda o: o[0])
    pl = b"" if rng.random() < 0.5 else G.rbytes(rng, rng.choice([1, 15, 16, 17, 32, 64]))
    if code == 0 and rng.random() < 0.6:
        return G.encode("udp", typ, 0, mid, b"", [], b"")
    return G.encode("udp", typ, code, mid, tok, opts, pl)


def gen_sequences(ctx, n):
    rng = ctx.rng
    out = []
    for i in range(n):
        scen = rng.choice(SCENARIOS)
        if scen == "qc2":
            # a client in mid Q-Block2: crafted responses, the server's genuine datagrams `@k` replayed in any order, mutations
            ds = []
            for _ in range(rng.choice([1, 2, 3, 5, 8, 12])):
                c = rng.random()
                if c < 0.3:
                    ds.append("@%d" % rng.choice([0, 1, 1, 2, 3, 4, 5, 6, 6]))
                elif c < 0.75:
                    ds.append(hx(targeted(rng, scen)))
                elif c < 0.95:
                    b = targeted(rng, scen)
                    for _ in range(rng.choice([1, 1, 2])):
                        b = G.mutate(rng, b)
                    ds.append(hx(b[:1400]))
                else:
                    ds.append(hx(G.rbytes(rng, rng.choice([0, 1, 3, 4, 5, 8, 13, 40]))))
            out.append("hseq qc2 %d same %s" % (rng.choice([0, 7, 8]), ";".join(ds)))
            continue
        if scen not in ("cli", "qc2") and rng.random() < 0.12:
            out.append("hseq %s %d %s %s" % (scen, rng.choice([0, 7]), rng.choice(["same", "other"]), ";".join(hx(b) for b in block_storm(rng))))
            continue
        ds = []
        for _ in range(rng.choice([1, 2, 3, 5, 8])):
            c = rng.random()
            if c < 0.45:
                b = targeted(rng, scen)
            elif c < 0.8:
                b = targeted(rng, scen)
                for _ in range(rng.choice([1, 1, 2, 3])):
                    b = G.mutate(rng, b)
            elif c < 0.9:
                b = G.encode("udp", *G.gen_msg(rng))
            else:
                b = G.rbytes(rng, rng.choice([0, 1, 3, 4, 5, 8, 13, 40]))
            if len(b) > 1400:          # a datagram longer than libcoap's receive buffer is cut by the read itself
                b = b[:rng.choice([4, 5, 12, 40])]
            ds.append(hx(b))
        out.append("hseq %s %d %s %s" % (scen, rng.choice([0, 7, 8]), rng.choice(["same", "same", "other"]), ";".join(ds)))
    return out


def judge_seq(ctx, c):
    i, m = c["impl"], c["model"]
    it, mt = i.split(), (m or "").split()
    if len(it) != len(mt):
        return ("tie", "different number of observations: %s / %s" % (i[:150], (m or "")[:150]))
    for k, (a, b) in enumerate(zip(it, mt)):
        if b == "dispatch":
            continue                     # well-formed: the protocol layer's reaction belongs to C07/C10
        if a != b:
            if a.startswith("canary="):
                return ("spec", "after the hostile datagrams the endpoint no longer answers a well-formed request")
            if not a.startswith("h0:"):
                return ("spec", "datagram %d is rejected by the specification but an application handler ran: %s" % (k, a))
            if a.count(":") >= 2 and not a.split(":")[2].startswith("R"):
                return ("spec", "datagram %d is malformed but drew a reply other than a Reset: %s" % (k, a))
            return ("tie", "datagram %d: implementation %s, model %s" % (k, a, b))
    return None


def judge(ctx, c):
    op = c["input"].split(" ", 1)[0]
    if op in BORROWED_C09:
        return _p9().judge(ctx, c)
    if op in BORROWED_C05:
        return _p5().judge(ctx, c)
    if op in QBLOCK_OPS:
        return judge_qblock(ctx, c)
    i, m = c["impl"], c["model"]
    if i is None or i.startswith("crash"):
        return ("spec", "the real code aborted on this input: %s" % i)
    if c["input"].startswith("hseq"):
        return judge_seq(ctx, c)
    if i != m:
        if i.startswith("dispatch") and not (m or "").startswith("dispatch"):
            return ("spec", "input the specification rejects was handed to the protocol layer: %s" % i[:150])
        return ("tie", "gate action differs: implementation %s, model %s" % (i[:150], (m or "")[:150]))
    return None


def nontrivial(c):
    w = c["input"].split()
    if w[0] in BORROWED_C09 or w[0] in BORROWED_C05:
        return True
    if w[0] in QBLOCK_OPS:
        return w[-1] != "-"
    return len(w[-1]) >= 8


def classify(c):
    w = c["input"].split()
    if w[0] in BORROWED_C09 or w[0] in BORROWED_C05:
        return "borrowed:" + w[0]
    if w[0] in QBLOCK_OPS:
        return "qblock:%s:%s" % (w[0], ((c["impl"] or "?").split() + ["?"] * 3)[2].split(":")[0] if w[0] == "q408" else "")
    if w[0] == "hseq":
        return "seq:%s:%s" % (w[1], w[3])
    return "%s:lvl%s:%s" % (w[1], w[2], (c["model"] or "?").split()[0])


def search(ctx, tie_breaks, proof):
    rng = ctx.rng
    out = []
    for c in tie_breaks[:50]:
        w = c["input"].split()
        if w[0] != "hparse":
            continue
        b = bytes.fromhex(w[3]) if w[3] != "-" else b""
        for _ in range(200):
            out.append("hparse %s %s %s" % (w[1], w[2], hx(G.mutate(rng, b))))
    return out


def known(ctx, c):
    # no open finding: c02-qblock2-num-2e20 is fixed (00bcbc1) - a request for block 2^20 / a datagram that does not parse is
    # a contradiction again (judge_qblock)
    return None


# ---- T1X: the numerals of this property's models are tied to the current tree.  extract/consts2*.c + a source scan
# rewrite lean/CoapVerif/Generated/Consts2.lean on every check; Props/C02Consts.lean proves `<model numeral> =
# Generated.C2.<name>` (design/T1.md).  A changed macro / struct size / literal breaks one of these named obligations.
LEAN_MODULES = list(LEAN_MODULES) + ["CoapVerif.Props.C02Consts"]
REQUIRED_THEOREMS = list(REQUIRED_THEOREMS) + [
    "add408Block_bound_matches_code",
    "q408_bound_matches_code",
    "q408_format_matches_code",
    "q408_noFormat_matches_code",
    "gate_mtu_matches_code",
]
TRUSTED_BASE = list(TRUSTED_BASE) + ["T1 extractors extract/consts2.c, consts2_net.c, consts2_opt.c and the source scan vlib/tables.py scan_consts2 (Generated/Consts2.lean)"]
_t1x_prev_extract = globals().get("extract")


def extract(ctx):
    from vlib import tables
    return (_t1x_prev_extract(ctx) if _t1x_prev_extract else []) + tables.extract_consts2()
