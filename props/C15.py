"""C15 — OSCORE replay protection, nonce uniqueness, forgeries leave no trace (DESIGN.md §4 C15, design/C15.md)."""
import itertools
from vlib import common as C

MANIFEST = {
    "text": "Lean theorems about the transcription M of oscore_validate_sender_seq, oscore_roll_back_seq, the request path AND the "
            "response path of coap_oscore_decrypt_pdu (both on one recipient context) and the sender sequence/save-watermark code, "
            "over histories that interleave protected requests and protected responses (Observe notifications with their own Partial "
            "IV, responses without, authentic or forged) of the same peer in any order: accept_at_most_once / recorded_at_most_once "
            "(any window size, Appendix B.1.2 on or off, jumps >= 64: accepted request Partial IVs pairwise distinct, whatever "
            "responses with older or newer Partial IVs arrive in between), forged_never_accepted / forgery_no_trace / "
            "forgery_no_trace_reachable / forgery_invisible (a request or response failing authentication leaves initial_state, "
            "last_seq and sliding_window unchanged and changes no later verdict), fresh_in_window_accepted / fresh_response_accepted "
            "(liveness), no_ub_shift / no_ub_recv, recv_conforms_spec + spec_accept_at_most_once (M refines the "
            "set-of-accepted-PIVs monitor S written from RFC 8613, and S implies the property), piv_never_reused (PIVs strictly "
            "increasing over all protect / crash-restart sequences, every ssn_freq). M is tied to the compiled code by differential "
            "runs of the real coap_oscore_decrypt_pdu (request and response branch on the same recipient context) / "
            "coap_oscore_new_pdu_encrypted on generated and exhaustive short histories (I vs M vs S, state compared after every event). "
            "Forged messages come with every ciphertext length (none, 1..8 = not longer than the AEAD tag, longer): "
            "short_ciphertext_never_accepted / short_ciphertext_no_trace / accept_at_most_once_dgram over the datagram layer stepD. "
            "Sender side over whole histories (nrun: requests in, own requests whose tokens share the association table, responses, "
            "notifications, Echo challenges, save watermark, crashes + restarts): own_piv_strictly_increasing / "
            "own_nonce_never_reused (the Partial IVs used with the endpoint's own Sender ID never repeat, all histories, all "
            "configurations), response_nonce_is_peers (what goes out without Partial IV uses a request nonce of the peer, never an "
            "own one), request_nonce_used_at_most_once / nonce_never_reused (per life of the process, no hypothesis on the application: a "
            "response re-uses the nonce of a request at most once per accepted request; all nonces handed to the AEAD are pairwise "
            "distinct), forged_b2_response_no_trace (Appendix B.2 client: a response that does not verify leaves b_2_step and the ID "
            "Context untouched) and forged_b2_request_no_trace (server: a request that does not verify leaves b_2_step, oscore_r2 "
            "and the set of security contexts untouched). Also OBSERVED on the implementation alone: the (key, nonce) pair really handed to the AEAD "
            "(--wrap=cose_encrypt0_encrypt) for every request, response and notification an endpoint protects while requests, Observe "
            "registrations and forged requests arrive must be pairwise distinct and, without Partial IV, be the nonce of an accepted "
            "request (step theorems only: notification_fresh_piv, observe_response_fresh_piv, forged_request_no_association).",
    "note": "Trusted: Lean kernel (+ propext, Classical.choice, Quot.sound), harness/replay.c, generators and the Python monitor, the "
            "hand transcription M (checked against the compiled code on the cases run only). The AEAD is an oracle (authentic / forged). "
            "piv_never_reused assumes fewer than 2^63 operations (uint64 counter). Fourteen defects of the pinned tree were fixed "
            "(KNOWN_FINDINGS.txt); M models the fixed code. 'At most once' is claimed for requests (the property text); replays of "
            "responses are only rejected once the window is initialised (SPEC DECISION D15f).",
    "design_ref": "DESIGN.md §4 C15, design/C15.md",
}
LEAN_MODULES = ["CoapVerif.Props.C15"]
NAMESPACE = "Coap.C15"
REQUIRED_THEOREMS = ["accept_at_most_once", "recorded_at_most_once", "forged_never_accepted", "forged_request_no_trace",
                     "forgery_no_trace", "reachable_sane", "forgery_no_trace_reachable", "forgery_invisible",
                     "fresh_in_window_accepted", "fresh_response_accepted", "no_ub_shift", "no_ub_recv", "recv_conforms_spec",
                     "spec_accept_at_most_once", "spec_forged_rejected", "piv_never_reused",
                     "short_ciphertext_never_accepted", "short_ciphertext_no_trace", "accept_at_most_once_dgram",
                     "notification_fresh_piv", "observe_response_fresh_piv", "forged_request_no_association",
                     "client_association_never_responds", "own_piv_strictly_increasing", "own_nonce_never_reused",
                     "response_nonce_is_peers", "accept_at_most_once_across_restarts", "nothing_below_echo_request",
                     "request_nonce_used_at_most_once", "request_nonce_used_at_most_once_per_life", "nonce_never_reused",
                     "forged_b2_response_no_trace", "forged_b2_history_no_trace", "forged_b2_request_no_trace",
                     "forged_b2_requests_no_trace"]
RULE = ("recipient: histories of <= 30 protected messages delivered through coap_oscore_decrypt_pdu to ONE fresh recipient context: "
        "requests (authentic with/without/with wrong Echo, forged with any claimed Partial IV) and, interleaved, responses to an "
        "Observe registration of that endpoint (authentic notifications carrying the peer's sequence number as Partial IV, forged "
        "responses claiming any Partial IV, authentic/forged responses without Partial IV); replay window 1..63 (a few 64, 100), "
        "Appendix B.1.2 on/off; PIVs chosen as small gaps, in-window lower values, both sides of the window edge, jumps >= 64, "
        "replays of earlier PIVs (same or other message kind), values next to 2^40-1; a peer simulation (one increasing sequence "
        "number shared by requests and notifications, delayed / reordered / duplicated delivery, injected forgeries); exhaustive "
        "short histories over small PIV alphabets with and without responses; "
        "sender: protect/crash-restart sequences with ssn_freq 1..9 (some large) through coap_oscore_new_pdu_encrypted and the "
        "save callback; direct calls of oscore_validate_sender_seq on random states; one to four messages delivered to a recipient "
        "context preset to a random (also unreachable, e.g. last_seq >= 2^40-1) state; forged messages with ciphertext lengths "
        "0 (no payload), 1..8, 9 and more (about 45 % of the forged events, plus every length 0..10 in short contexts); "
        "sender nonces: <= 24 ops over {request / Observe registration / forged request arrives for one of 1..5 tokens, respond "
        "without Observe / notify / respond with OSCORE_SEND_PARTIAL_IV, own request}, all sequences of length <= 3 over 12 symbols; "
        "whole sender side (endp): <= 26 ops over requests of a conforming peer (with / without / stale Echo, re-delivered), forged "
        "requests, own requests / Observe registrations / deregistrations with tokens from the same 1..4 tokens, responses, "
        "crashes + restarts (ssn_freq 0..2^32-1, start values next to 2^40-1), all sequences of length <= 3 over 11 symbols; "
        "Appendix B.2 client response path (b2c): responses that do not verify with every form of kid context field (absent, empty, "
        "not CBOR, 0..23 bytes, the current ID Context), all sequences of length <= 3 over 7 forms + random lines; "
        "Appendix B.2 server request path (b2s): requests that do not verify, kid context 0..23 bytes, before and during an exchange; "
        "the fixed corpus. "
        "non-trivial = distinct history in which at least one message was accepted / one PIV was sent")
TRUSTED_BASE = ["Lean 4.33 kernel; axioms allowed: propext, Classical.choice, Quot.sound (audited per theorem each run)",
                "harness/replay.c (drives coap_oscore_decrypt_pdu / coap_oscore_new_pdu_encrypted of the rebuilt libcoap, both endpoints "
                "acting as client and server on one security context; "
                "--wrap=coap_send_internal records the response, --wrap=oscore_cbor_put_bytes avoids memcpy(dst,NULL,0) in key "
                "derivation), generators, the Python monitor in props/C15.py and string comparison",
                "M (CoapVerif/Model/Replay.lean) is a hand transcription of oscore_validate_sender_seq, oscore_roll_back_seq, "
                "oscore_increment_sender_seq and their call sites (request and response branch of coap_oscore_decrypt_pdu); "
                "checked against the compiled code only on the cases run",
                "the AEAD (GnuTLS AES-CCM) is an oracle: 'authentic' = produced by the real sender code with the shared key, "
                "'forged' = ciphertext that does not verify"]
ASSUMPTIONS = ["a message that does not authenticate is one whose AEAD verification fails (cryptographic unforgeability is C14's oracle)",
               "a response reaches the response branch with the association of its token present (token bookkeeping is C14/C16); "
               "responses of one peer all use that peer's single sender sequence number space",
               "the value handed to the save callback is what start_seq_num is at the next start (the callback persists it)",
               "piv_never_reused: fewer than 2^63 protect/restart operations and a start value <= 2^40 (else the uint64 counter itself wraps)",
               "messages of one recipient context are processed one at a time (thread safety is C13)",
               "endp oracle: the peer is conforming (one datagram per sequence number) and replay protection ACROSS restarts is "
               "Appendix B.1.2's / the peer's: two responses in different lives of the endpoint under the nonce of the same request "
               "are not judged; the application does not answer a request it was never given (dropped for a stale Echo value)",
               "compiled Lean definitions agree with the kernel's reading of them"]
SPEC_DECISIONS = ["D15a a never-accepted authentic request older than the window may be accepted or rejected; windows above 64 are capped at 64",
                  "D15b PIV >= 2^40-1 may be rejected", "D15c Appendix B.1.2: no Echo -> challenge, wrong Echo -> not accepted, right Echo -> accepted",
                  "D15d 'state exactly as before' = (initial_state, last_seq, sliding_window); roll-back scratch fields excluded, shown irrelevant",
                  "D15e responses of the same peer that carry their own Partial IV share the peer's sequence numbers: the window's upper edge is "
                  "the highest PIV accepted in a request or a response; a request whose PIV an accepted response already used may go either way",
                  "D15f 'at most once' is asked of requests only: an authentic response with a PIV accepted before may go either way; a genuine "
                  "response without PIV, or with a new PIV < 2^40-1 not older than the window, is accepted (unless a PIV >= 2^40-1 was accepted)",
                  "D15g RFC 8613 B.1.2: the Partial IV of the request that completes the Echo exchange is the lower edge of the window: a "
                  "request below it is rejected (it may have been accepted before the restart), a response below it may go either way"]
WRAPS = ["coap_send_internal", "oscore_cbor_put_bytes", "cose_encrypt0_encrypt"]
SEQ_LIMIT = 2 ** 40 - 1


def harness(ctx):
    return C.build_harness("replay", C.build_libcoap(), wraps=WRAPS)


# ----------------------------------------------------------------------------------------------------------------
# generators
# ----------------------------------------------------------------------------------------------------------------
def forged_len(rng):
    """ciphertext length of a forged message: none at all, 1..8 (not longer than the AEAD tag), 9 (tag + code byte), more;
    '' = the historic 14 junk bytes"""
    c = rng.random()
    if c < 0.55:
        return ""
    return ".%d" % rng.choice([0, 1, 2, rng.randint(1, 8), 7, 8, 8, 9, 9, 10, 13, 16, rng.randint(9, 80)])


def with_forged_len(rng, evs):
    return [e + forged_len(rng) if e[0] in "xyz" and "." not in e else e for e in evs]


def gen_history(rng, maxlen=30, responses=None):
    """PIV-driven history; with `responses` some of the events are responses (notification n / forged y / without PIV r, z)
    on the same recipient context, their PIVs drawn by the same rules (window edges, replays, jumps)"""
    if responses is None:
        responses = rng.random() < 0.5
    w = rng.choice([rng.randint(1, 63)] * 6 + [1, 2, 32, 63, 64, 100])
    b12 = rng.choice([0, 1])
    n = rng.randint(1, maxlen)
    evs = []
    seen = []
    hi = rng.choice([0, 0, 0, 1, 5, rng.randint(0, 200), rng.randint(0, 2 ** 20), 2 ** 32 - 2, 2 ** 40 - 80])
    first = True
    for _ in range(n):
        c = rng.random()
        top = max(seen) if seen else hi
        if first:
            p = hi
        elif c < 0.22:
            p = top + rng.choice([1, 1, 1, 2, 3])
        elif c < 0.32:
            p = top + rng.choice([w - 1, w, w + 1, w + 2, 62, 63, 64, 65, 66, 127, 128, rng.randint(64, 5000)])
        elif c < 0.52:
            p = top - rng.randint(1, max(1, min(w + 2, 66)))
        elif c < 0.64:
            p = top - rng.choice([w - 1, w, w + 1, w + 2, 62, 63, 64, 65])
        elif c < 0.84 and seen:
            p = rng.choice(seen)
        elif c < 0.88:
            p = rng.choice([0, 1, SEQ_LIMIT - 3, SEQ_LIMIT - 2])
        else:
            p = rng.randint(0, top + 70)
        p = max(0, p)
        k = rng.random()
        if k < 0.22:
            kind = "x"
            if rng.random() < 0.15:
                p = rng.choice([SEQ_LIMIT - 1, SEQ_LIMIT, top + rng.randint(64, 2 ** 30), 2 ** 40 - 1])
        elif b12 and k < (0.60 if first or rng.random() < 0.2 else 0.30):
            kind = rng.choice("eeeaw")
        elif k < 0.27:
            kind = rng.choice("ew")
        else:
            kind = "a"
        if responses:
            q = rng.random()
            if q < 0.22:
                kind = "n" if kind != "x" else "y"
            elif q < 0.27:
                kind = "y"
            elif q < 0.30:
                kind = rng.choice("rz")
        if kind not in "xy":
            p = min(p, SEQ_LIMIT - 2)      # the real sender cannot protect a message with a higher sequence number
        p = min(p, 2 ** 40 - 1)            # a Partial IV has at most 5 bytes
        if kind in "rz":
            evs.append(kind + "0")
        else:
            evs.append("%s%d" % (kind, p))
            seen.append(p)
        first = False
    return "replay %d %d %s" % (w, b12, " ".join(with_forged_len(rng, evs)))


def gen_mixed(rng, maxlen=30):
    """The peer as a process: ONE increasing sender sequence number shared by its requests and its notifications; the
    network delays, reorders and duplicates datagrams, an attacker replays old ones and injects forged requests /
    responses claiming any Partial IV."""
    w = rng.choice([rng.randint(1, 63)] * 5 + [1, 2, 3, 32, 63, 64])
    b12 = rng.choice([0, 0, 1])
    n = rng.randint(2, maxlen)
    seq = rng.choice([0, 0, 0, 1, 5, rng.randint(0, 200), rng.randint(0, 2 ** 20), 2 ** 32 - 3, SEQ_LIMIT - 40])
    p_notify = rng.choice([0.2, 0.4, 0.6])
    p_delay = rng.choice([0.15, 0.35, 0.6])
    sent, pending, evs = [], [], []
    synced = not b12
    while len(evs) < n:
        c = rng.random()
        if c < 0.45 and seq < SEQ_LIMIT - 2:
            if rng.random() < p_notify:
                kind = "n"
            elif not synced:
                kind = rng.choice("eeeeaw")
            else:
                kind = "e" if b12 and rng.random() < 0.05 else "a"
            d = "%s%d" % (kind, seq)
            seq += rng.choice([1, 1, 1, 1, 1, 2, 3, w, w + 1, 63, 64, 65, rng.randint(1, 200)])
            sent.append(d)
            if rng.random() < p_delay:
                pending.append(d)
            else:
                evs.append(d)
                synced = synced or kind == "e"
        elif c < 0.62 and pending:
            d = pending.pop(rng.randrange(len(pending)))
            evs.append(d)
            synced = synced or d[0] == "e"
        elif c < 0.80 and sent:
            d = rng.choice(sent)                       # replay of an earlier datagram ...
            if rng.random() < 0.12:                    # ... or the same sequence number in the other kind of message
                d = ("a" if d[0] == "n" else "n") + d[1:]
            evs.append(d)
        elif c < 0.93:
            top = seq
            p = rng.choice([rng.choice(sent)[1:] if sent else "0", str(top), str(top + rng.randint(1, 70)),
                            str(max(0, top - rng.randint(1, 70))), str(rng.randint(0, top + 100)),
                            str(SEQ_LIMIT), str(SEQ_LIMIT - 1), str(top + rng.randint(64, 2 ** 30))])
            evs.append(rng.choice("xyy") + str(min(int(p), 2 ** 40 - 1)))
        else:
            evs.append(rng.choice("rrz") + "0")
    return "replay %d %d %s" % (w, b12, " ".join(with_forged_len(rng, evs)))


def gen_sender(rng, maxlen=40):
    f = rng.choice([1, 1, 2, 3, 4, 5, 7, 9, rng.randint(1, 9), 100, 2 ** 32 - 1, 0])
    start = rng.choice([0, 0, 0, 0, rng.randint(0, 50), SEQ_LIMIT - rng.randint(1, 12)])
    ops = []
    for _ in range(rng.randint(1, maxlen)):
        if rng.random() < 0.2:
            ops.append("c%d" % rng.choice([f, f, f, rng.randint(0, 9), 2 ** 32 - 1]))
        else:
            ops.append("p")
    return "sender %d %d %s" % (f, start, " ".join(ops))


def gen_validate(rng):
    w = rng.choice([rng.randint(1, 63), 32, 64, 100])
    last = rng.choice([0, 1, rng.randint(0, 300), rng.randint(0, 2 ** 40)])
    win = rng.choice([1, 3, 5, rng.getrandbits(64) | 1, rng.getrandbits(64), 2 ** 63 + 1, 2 ** 64 - 1, 0])
    d = rng.choice([0, 1, -1, 2, -2, w, -w, w + 1, -w - 1, 63, -63, 64, -64, 65, -65, rng.randint(-80, 80), rng.randint(-2 ** 20, 2 ** 20)])
    piv = rng.choice([max(0, last + d)] * 8 + [SEQ_LIMIT - 1, SEQ_LIMIT, SEQ_LIMIT + 1, 2 ** 64 - 1])
    return "validate %d %d %d %d %d" % (w, rng.choice([0, 0, 0, 1]), last, win, piv)


def gen_replayst(rng):
    """one to four messages delivered to a recipient context in an arbitrary (also unreachable) state"""
    w = rng.choice([rng.randint(1, 63), 1, 32, 64, 100])
    b12 = rng.choice([0, 0, 1])
    init = rng.choice([0, 0, 1])
    last = rng.choice([0, 1, rng.randint(0, 300), rng.randint(0, 2 ** 40), SEQ_LIMIT - 2, SEQ_LIMIT - 1, SEQ_LIMIT, SEQ_LIMIT + 1,
                       SEQ_LIMIT + rng.randint(0, 70), 2 ** 40 + 5])
    win = rng.choice([0, 1, 3, 5, rng.getrandbits(64) | 1, rng.getrandbits(64), rng.getrandbits(8), 2 ** 63 + 1, 2 ** 64 - 1])
    evs = []
    for _ in range(rng.randint(1, 4)):
        d = rng.choice([0, 1, -1, 2, -2, w, -w, w + 1, -w - 1, 63, -63, 64, -64, 65, -65, rng.randint(-80, 80)])
        p = max(0, last + d)
        kind = rng.choice("aaennnxyyyrz")
        if kind in "rz":
            evs.append(kind + "0")
            continue
        p = min(p, 2 ** 40 - 1 if kind in "xy" else SEQ_LIMIT - 2)
        evs.append("%s%d" % (kind, p))
    return "replayst %d %d %d %d %d %s" % (w, b12, init, last, win, " ".join(with_forged_len(rng, evs)))


def gen_nonces(rng, maxlen=24):
    """The endpoint as server and client: requests of the peer arrive (plain / Observe registrations, a few tokens, the
    peer's sequence number increasing with gaps, some replayed, some forged ones re-using a token with any claimed PIV),
    the endpoint protects responses (without Observe, notifications, with OSCORE_SEND_PARTIAL_IV — also several for one
    request, for tokens never seen, after forged requests) and requests of its own."""
    w = rng.choice([32, 32, rng.randint(1, 63), 64])
    ntok = rng.choice([1, 2, 2, 3, 5])
    seq = rng.choice([0, 0, 0, 1, 7, rng.randint(0, 300), 2 ** 24 - 2, SEQ_LIMIT - 30])
    p_obs = rng.choice([0.2, 0.5, 0.8])
    used, live, ops = [], [], []
    for _ in range(rng.randint(2, maxlen)):
        c = rng.random()
        t = rng.randrange(ntok)
        if c < 0.28 and seq < SEQ_LIMIT - 2:
            k = "o" if rng.random() < p_obs else "g"
            ops.append("%s%d.%d" % (k, t, seq))
            used.append(seq)
            live.append(t)
            seq += rng.choice([1, 1, 1, 1, 2, 3, rng.randint(1, 70)])
            if rng.random() < 0.6:                           # the usual exchange: answered at once
                ops.append(("n" if k == "o" and rng.random() < 0.8 else rng.choice("rrri")) + str(t))
        elif c < 0.36 and used:
            ops.append("%s%d.%d" % (rng.choice("go"), t, rng.choice(used)))         # replay of an earlier request
        elif c < 0.50:
            p = rng.choice([seq, seq + 1, seq + rng.randint(0, 40), rng.choice(used) if used else 0,
                            max(0, seq - rng.randint(1, 40)), rng.randint(0, seq + 100)])
            ops.append("x%d.%d" % (rng.choice(live) if live and rng.random() < 0.8 else t, min(p, 2 ** 40 - 1)))
        elif c < 0.58:
            ops.append("q")
        else:
            tt = rng.choice(live) if live and rng.random() < 0.85 else t
            ops.append(rng.choice("rrrrnnnni") + str(tt))
    return "nonces %d %s" % (w, " ".join(ops))


def exhaustive_nonces(maxlen):
    alpha = ["g0.0", "o0.0", "g0.1", "o1.1", "x0.1", "x0.2", "g1.2", "r0", "n0", "r1", "i0", "q"]
    out = []
    for n in range(1, maxlen + 1):
        for ops in itertools.product(alpha, repeat=n):
            if any(o[0] in "rniq" for o in ops):
                out.append("nonces 32 " + " ".join(ops))
    return out

def gen_endp(rng, maxlen=26):
    """The whole sender side of one security context over its life: requests of a conforming peer (ONE increasing
    sequence number, tokens re-used, with / without / with a stale Echo value, re-delivered inside one life of the
    endpoint), forged requests, the endpoint's own requests — their tokens drawn from the SAME small set as those of the
    requests it receives —, responses (without Observe / notifications / OSCORE_SEND_PARTIAL_IV), the save callback
    (ssn_freq 0..100), crashes and restarts from the stored value, sequence numbers next to 2^40-1.  Responses go out for
    ANY token, also for one whose only request was caught by the Appendix B.1.2 trap (wrong Echo value, challenge that
    could not be protected: such a request must leave no association — round R15c — so these are `err`)."""
    w = rng.choice([32, 32, rng.randint(1, 63), 64])
    b12 = rng.choice([0, 1, 1])
    f = rng.choice([1, 1, 2, 3, 5, 9, 0, 100, 2 ** 32 - 1])
    near = rng.random() < 0.12
    start = SEQ_LIMIT - rng.randint(0, 6) if near else rng.choice([0, 0, 0, 1, rng.randint(0, 50)])
    ntok = rng.choice([1, 2, 2, 3, 4])
    seq = rng.choice([0, 0, 1, 7, rng.randint(0, 300), 2 ** 24 - 2, SEQ_LIMIT - 40])
    synced = not b12
    epoch, dirty, ops = [], set(), []
    old = []                     # datagrams of earlier lives (an attacker kept them)
    for _ in range(rng.randint(2, maxlen)):
        c = rng.random()
        t = rng.randrange(ntok)
        if c < 0.26 and seq < SEQ_LIMIT - 2:
            k = rng.choice("ggoeeEw" if not synced else "gggooeEw")
            ops.append("%s%d.%d" % (k, t, seq))
            if k in "eE":
                synced = True
            if k in "go" or synced:
                epoch.append(ops[-1])
            seq += rng.choice([1, 1, 1, 1, 2, 3, rng.randint(1, 70)])
            if rng.random() < 0.5 and t not in dirty:
                ops.append(("n" if k in "oE" and rng.random() < 0.8 else rng.choice("rrri")) + str(t))
        elif c < 0.34 and b12 and old and (not epoch or rng.random() < 0.4):
            d = rng.choice(old)                              # a datagram of an EARLIER life arrives again (Appendix B.1.2 on:
            if d[0] in "eE":                                 # it must never be accepted; its Echo value is stale by now)
                d = "w" + d[1:]
            ops.append(d)
        elif c < 0.34 and epoch:
            ops.append(rng.choice(epoch))                    # the network delivers a datagram of this life again
        elif c < 0.44:
            p = rng.choice([seq, seq + 1, seq + rng.randint(0, 40), max(0, seq - rng.randint(1, 40)), rng.randint(0, seq + 100)])
            ops.append("x%d.%d" % (t, min(p, 2 ** 40 - 1)))
        elif c < 0.60:
            ops.append(rng.choice("qqqQQD") + str(t))
        elif c < 0.68:
            ops.append("c%d" % rng.choice([f, f, f, rng.randint(0, 9), 2 ** 32 - 1]))
            synced = not b12
            old += epoch
            epoch, dirty = [], set()
        elif t not in dirty:
            ops.append(rng.choice("rrrrnnnni") + str(t))
    return "endp %d %d %d %d %s" % (w, b12, f, start, " ".join(ops))


def exhaustive_endp(maxlen):
    alpha = ["g1.1", "o1.4", "e1.2", "w1.3", "x1.5", "q1", "Q1", "D1", "r1", "n1", "c2"]
    out = []
    for b in (0, 1):
        for n in range(1, maxlen + 1):
            for ops in itertools.product(alpha, repeat=n):
                if any(o[0] in "rnqQD" for o in ops):
                    out.append("endp 32 %d 2 0 %s" % (b, " ".join(ops)))
    return out


def exhaustive(windows, b12s, alphabet, maxlen):
    out = []
    for w in windows:
        for b in b12s:
            for n in range(1, maxlen + 1):
                for evs in itertools.product(alphabet, repeat=n):
                    out.append("replay %d %d %s" % (w, b, " ".join(evs)))
    return out


def generate(ctx, escalate=False):
    rng = ctx.rng
    thorough = ctx.thorough()
    n = 150000 if thorough else 12000
    if escalate:
        n *= 3
    out = []
    for i in range(n):
        out.append(gen_history(rng))
    for i in range(n // 2):
        out.append(gen_mixed(rng))
    for i in range(n // 4):
        out.append(gen_sender(rng))
    for i in range(n // 3):
        out.append(gen_validate(rng))
    for i in range(n // 3):
        out.append(gen_replayst(rng))
    for i in range(n // 3):
        out.append(gen_nonces(rng))
    for i in range(n // 3):
        out.append(gen_endp(rng))
    b2 = ["b2c " + " ".join(e) for k in (1, 2, 3) for e in itertools.product(["z", "i", "u", "e", "f0", "f3", "f8"], repeat=k)]
    b2 += [gen_b2c(rng) for _ in range(n // 12)]
    ctx.cov["b2c"] = ("Appendix B.2 client response path, responses that do not verify: all sequences of length <= 3 over 7 kid "
                      "context forms + %d random (%d cases)" % (n // 12, len(b2)))
    out += b2
    b2 = ["b2s " + " ".join(e) for k in (1, 2, 3) for e in itertools.product(["R", "x0", "x3", "x8", "X8", "X12"], repeat=k)]
    b2 += [gen_b2s(rng) for _ in range(n // 12)]
    ctx.cov["b2s"] = ("Appendix B.2 server request path, requests that do not verify (step 2 and, after the set-up R, step 4): all "
                      "sequences of length <= 3 over 6 symbols + %d random (%d cases)" % (n // 12, len(b2)))
    out += b2
    nx = exhaustive_nonces(4 if thorough else 3)
    ne = exhaustive_endp(4 if thorough else 3)
    ctx.cov["endp"] = ("whole sender side (tokens shared by both roles, Echo, save callback, crash/restart): all op sequences of "
                       "length <= %d over 11 symbols, Appendix B.1.2 off/on (%d cases), %d random" % (4 if thorough else 3, len(ne), n // 3))
    out += ne
    # forged messages of every ciphertext length 0..10 in every short context (before / after the window is initialised,
    # PIV below / equal / above last_seq, B.1.2 pending or not)
    fl = []
    for b in (0, 1):
        for pre in ([], ["a5"], ["e5"], ["n5"], ["a5", "a7"]):
            for k in "xyz":
                for p in ((0,) if k == "z" else (0, 3, 5, 6, 7, 200, SEQ_LIMIT - 1)):
                    for ln in range(0, 11):
                        fl.append("replay 32 %d %s" % (b, " ".join(pre + ["%s%d.%d" % (k, p, ln), "a6", "n8"])))
    ctx.cov["nonces"] = ("sender side, (key, nonce) handed to the AEAD: all op sequences of length <= %d over 12 symbols "
                         "(%d cases), %d random; forged messages with ciphertext length 0..10 in %d short contexts" % (
                             4 if thorough else 3, len(nx), n // 3, len(fl)))
    out += nx + fl
    # exhaustive short histories (every order of fresh / replay / forged over a small PIV alphabet incl. a jump >= 64)
    if thorough:
        alpha = [k + str(p) for k in "ax" for p in (0, 1, 2, 3, 4, 68, 69)]
        ex = exhaustive([1, 2, 3, 63], [0], alpha, 4)
        alpha_b = [k + str(p) for k in "aex" for p in (0, 1, 2, 66)]
        ex += exhaustive([1, 2, 32], [1], alpha_b, 4)
        # requests and responses on one context
        alpha_m = [k + str(p) for k in "an" for p in (0, 1, 2, 3, 67)] + [k + str(p) for k in "xy" for p in (1, 3, 70)] + ["r0"]
        mx = exhaustive([2, 63], [0], alpha_m, 4)
        alpha_mb = [k + str(p) for k in "aeny" for p in (0, 1, 3)]
        mx += exhaustive([2, 32], [1], alpha_mb, 4)
    else:
        alpha = [k + str(p) for k in "ax" for p in (0, 1, 2, 4, 70)]
        ex = exhaustive([1, 2, 32], [0], alpha, 3)
        alpha_b = [k + str(p) for k in "aex" for p in (0, 1, 3)]
        ex += exhaustive([2], [1], alpha_b, 3)
        # requests and responses on one context
        alpha_m = [k + str(p) for k in "an" for p in (0, 1, 2, 3)] + [k + str(p) for k in "xy" for p in (1, 70)]
        mx = exhaustive([1, 2, 32], [0], alpha_m, 3)
        mx += exhaustive([32], [0], [k + str(p) for k in "an" for p in (0, 1, 2, 3)], 4)
        alpha_mb = [k + str(p) for k in "aeny" for p in (0, 1, 3)]
        mx += exhaustive([2], [1], alpha_mb, 3)
    ctx.cov["exhaustive"] = ("all histories of length <= %d over %d event symbols" % (4 if thorough else 3, len(alpha)) +
                             " (windows %s, B.1.2 off) and over %d symbols with Echo (B.1.2 on): %d cases; " % (
                                 "1,2,3,63" if thorough else "1,2,32", len(alpha_b), len(ex)) +
                             "requests and responses interleaved on one recipient context: all histories of length <= %d over "
                             "%d symbols (B.1.2 off) / %d symbols (B.1.2 on)%s: %d cases" % (
                                 4 if thorough else 3, len(alpha_m), len(alpha_mb),
                                 "" if thorough else ", length 4 over 8 symbols (window 32)", len(mx)))
    return out + ex + mx


# ----------------------------------------------------------------------------------------------------------------
# S as a monitor over the implementation's own trace (independent of M), mirrors Spec/Replay.lean
# ----------------------------------------------------------------------------------------------------------------
def out_class(v):
    return "acc" if v == "acc" else "chal" if v == "chal" else "rej"


BOTH = ["acc", "rej"]
WHAT = {"x": "forged request", "a": "authentic request", "e": "authentic request with the right Echo",
        "w": "authentic request with a wrong Echo", "n": "authentic notification with its own Partial IV",
        "y": "forged response claiming a Partial IV", "r": "authentic response without Partial IV",
        "z": "forged response without Partial IV"}


def allowed(window, accepted, seen, synced, kind, piv, floor=0):
    """accepted: PIVs of accepted requests; seen: PIVs of accepted responses that carried their own Partial IV;
    floor: Partial IV of the request that completed the Appendix B.1.2 exchange = lower edge of the window (D15g)"""
    if kind in "xyz":
        return ["rej"]
    if kind == "r":
        return ["acc"]
    allp = accepted | seen
    in_window = not allp or max(allp) < piv + min(window, 64)
    if kind == "n":
        if piv in allp:
            return BOTH
        if piv >= SEQ_LIMIT or (allp and max(allp) >= SEQ_LIMIT) or piv < floor:
            return BOTH
        return ["acc"] if in_window else BOTH
    if not synced:
        if kind == "a":
            return ["chal"]
        if kind == "w":
            return ["rej"]
        return BOTH if piv >= SEQ_LIMIT or piv in seen else ["acc"]
    if piv in accepted or piv < floor:
        return ["rej"]
    if piv >= SEQ_LIMIT or piv in seen:
        return BOTH
    return ["acc"] if in_window else BOTH


def ev_parts(ev):
    """<kind><piv>[.<ciphertext length>]"""
    body, _, ln = ev[1:].partition(".")
    try:
        return ev[0], int(body), (int(ln) if ln else None)
    except ValueError:
        return "?", 0, None


def what(ev):
    kind, piv, clen = ev_parts(ev)
    s = WHAT.get(kind, kind)
    if clen is not None:
        s += " with a ciphertext of %d bytes" % clen if clen else " without any payload"
    return s


def judge_replay(ctx, c):
    w = c["input"].split()
    window, b12, evs = int(w[1]) or 32, int(w[2]) != 0, w[3:]
    i, m, s = c["impl"] or "", c["model"] or "", c["spec"] or ""
    if i.startswith("crash"):
        return ("spec", "the implementation aborted (sanitizer / undefined behaviour): " + i[:200])
    it, mt, st = i.split(), m.split(), s.split()
    if len(it) != len(evs):
        return ("tie", "harness printed %d results for %d events: %s" % (len(it), len(evs), i[:120]))
    accepted, seen, synced = set(), set(), not b12
    floor = 0
    prev = "1,0,0"
    lock = True
    tie = None
    for k, ev in enumerate(evs):
        kind, piv, clen = ev_parts(ev)
        if kind not in WHAT or (clen is not None and kind not in "xyz"):
            return ("tie", "unknown event %r" % ev)
        try:
            v, state = it[k].split(":")
        except ValueError:
            return ("tie", "unparsable harness token %r" % it[k])
        al = allowed(window, accepted, seen, synced, kind, piv, floor)
        cls = out_class(v)
        if cls not in al:
            why = "event %d (%s, PIV %d): implementation %s, allowed %s" % (k + 1, what(ev), piv, v, "/".join(al))
            if cls == "acc" and kind in "aew" and piv in accepted:
                why += " — request PIV accepted twice"
            elif cls == "acc" and kind in "aew" and piv < floor:
                why += (" — below the Partial IV %d of the request that completed the Appendix B.1.2 exchange (lower edge "
                        "of the window): it may have been accepted before the restart" % floor)
            elif kind not in "xyz" and cls == "rej" and al == ["acc"]:
                why += " — fresh in-window genuine message rejected (accepted so far: requests %s, responses %s)" % (
                    sorted(accepted)[-6:], sorted(seen)[-6:])
            return ("spec", why)
        if kind in "xyz" and state != prev:
            return ("spec", "event %d: %s (PIV %d) changed the replay state %s -> %s" % (k + 1, what(ev), piv, prev, state))
        if lock and k < len(st) and "/".join(al) != st[k] and tie is None:
            tie = ("tie", "event %d: Lean S allows %s, the Python monitor %s" % (k + 1, st[k], "/".join(al)))
        if lock and (k >= len(mt) or it[k] != mt[k]):
            lock = False
            if tie is None:
                tie = ("tie", "event %d (%s): implementation %s but model M says %s" % (k + 1, ev, it[k], mt[k] if k < len(mt) else "-"))
        if cls == "acc":
            if kind == "n":
                seen.add(piv)
            elif kind != "r":
                accepted.add(piv)
                if not synced:
                    floor = piv
                synced = True
        prev = state
    return tie


def judge_replayst(ctx, c):
    """arbitrary start state: I = M event by event; a message that fails authentication is never accepted and, in every
    state with last_seq < 2^40-1 once the window is initialised (theorem forgery_no_trace), changes nothing"""
    w = c["input"].split()
    evs = w[6:]
    i, m = c["impl"] or "", c["model"] or ""
    if i.startswith("crash"):
        return ("spec", "the implementation aborted (sanitizer / undefined behaviour): " + i[:200])
    it, mt = i.split(), m.split()
    if len(it) != len(evs):
        return ("tie", "harness printed %d results for %d events: %s" % (len(it), len(evs), i[:120]))
    prev = "%d,%d,%d" % (int(w[3]) != 0, int(w[4]), int(w[5]))
    for k, ev in enumerate(evs):
        try:
            v, state = it[k].split(":")
        except ValueError:
            return ("tie", "unparsable harness token %r" % it[k])
        if ev[0] in "xyz":
            if v == "acc":
                return ("spec", "event %d: %s (PIV %s) accepted" % (k + 1, what(ev), ev[1:]))
            pi, pl, _ = prev.split(",")
            if state != prev and (pi == "1" or int(pl) < SEQ_LIMIT):
                return ("spec", "event %d: %s (PIV %s) changed the replay state %s -> %s" % (k + 1, what(ev), ev[1:], prev, state))
        prev = state
    if i != m:
        return ("tie", "implementation %s but model M says %s" % (i[:150], m[:150]))
    return None


def judge_sender(ctx, c):
    i, m = c["impl"] or "", c["model"] or ""
    if i.startswith("crash"):
        return ("spec", "the implementation aborted: " + i[:200])
    pivs, stored = [], int(c["input"].split()[2])
    for k, t in enumerate(i.split()):
        if t[0] == "r":
            if int(t[1:]) != stored:
                return ("spec", "restart %d resumed at %s, the value last handed to the save callback is %d" % (k + 1, t[1:], stored))
            continue
        if "s" in t:
            t, sv = t.split("s")
            stored = int(sv)
        if t.isdigit():
            if int(t) in pivs:
                return ("spec", "op %d: Partial IV %s put on the wire twice" % (k + 1, t))
            pivs.append(int(t))
        elif t != "err":
            return ("tie", "unexpected harness token %r" % t)
    if c["spec"] != "distinct":
        return ("tie", "model M reuses a Partial IV on this history")
    if i != m:
        return ("tie", "implementation %s but model M says %s" % (i[:150], m[:150]))
    return None


def judge_nonces(ctx, c):
    """The property on the implementation's own output: every message the sender context protects is encrypted with a
    (key, nonce) pair of its own; a message with a Partial IV in its OSCORE option uses the nonce of that Partial IV and
    its own Sender ID, one without uses the nonce of a request that was ACCEPTED (authenticated), and that at most once."""
    ops = c["input"].split()[2:]
    i, m = c["impl"] or "", c["model"] or ""
    if i.startswith("crash"):
        return ("spec", "the implementation aborted (sanitizer / undefined behaviour): " + i[:200])
    it = i.split()
    if len(it) != len(ops):
        return ("tie", "harness printed %d results for %d ops: %s" % (len(it), len(ops), i[:120]))
    seen = {}
    accepted = set()
    stripped = []
    for k, (op, t) in enumerate(zip(ops, it)):
        if op[0] in "gox":
            stripped.append(t)
            if t == "acc":
                if op[0] == "x":
                    return ("spec", "op %d: forged request %s accepted" % (k + 1, op))
                accepted.add(int(op.split(".")[1]))
            continue
        if t == "err":
            stripped.append(t)
            continue
        f = t.split("/")
        if len(f) != 3 or "." not in f[2]:
            return ("tie", "unexpected harness token %r" % t)
        piv, key, nonce = f
        stripped.append(piv + "/" + nonce)
        if (key, nonce) in seen:
            return ("spec", "op %d (%s): protected with the same key and nonce (id.PIV %s, key %s..) as op %d (%s) — nonce reuse" % (
                k + 1, op, nonce, key, seen[(key, nonce)] + 1, ops[seen[(key, nonce)]]))
        seen[(key, nonce)] = k
        nid, npiv = nonce.split(".")
        if piv != "-":
            if nid != "02" or npiv != piv:
                return ("spec", "op %d (%s): OSCORE option carries Partial IV %s but the nonce used is that of id %s, PIV %s" % (
                    k + 1, op, piv, nid, npiv))
        else:
            # (a notification without Partial IV is not judged here: RFC 8613 4.1.3.5.2 lets the FIRST one use the nonce of
            # the request; a second one is caught above as nonce reuse, a difference from M below as a tie break)
            if op[0] in "qi":
                return ("spec", "op %d (%s): a %s was protected without a Partial IV of its own (nonce of id %s, PIV %s)" % (
                    k + 1, op, {"q": "request", "i": "response with OSCORE_SEND_PARTIAL_IV"}[op[0]], nid, npiv))
            if nid != "01" or int(npiv) not in accepted:
                return ("spec", "op %d (%s): protected with the nonce of id %s, PIV %s, which is not the nonce of an accepted request "
                                "(accepted request PIVs: %s)" % (k + 1, op, nid, npiv, sorted(accepted)[-6:]))
    if c["spec"] != "distinct":
        return ("tie", "model M reuses a nonce on this history")
    if " ".join(stripped) != m:
        return ("tie", "implementation %s but model M says %s" % (" ".join(stripped)[:150], m[:150]))
    return None


def judge_endp(ctx, c):
    """The property on the implementation's own output over a whole life of the sender side: every (key, nonce) pair
    handed to the AEAD is used once; a message with a Partial IV uses the nonce of that Partial IV and its own Sender ID;
    one without uses the nonce of a request of the peer that was decrypted; a restart resumes at the stored value.
    (Two responses in DIFFERENT lives of the endpoint under the nonce of the same request are not judged: replay
    protection across restarts is Appendix B.1.2 / the peer's, see ASSUMPTIONS.)"""
    w = c["input"].split()
    ops, stored = w[5:], int(w[4])
    i, m = c["impl"] or "", c["model"] or ""
    if i.startswith("crash"):
        return ("spec", "the implementation aborted (sanitizer / undefined behaviour): " + i[:200])
    it = i.split()
    if len(it) != len(ops):
        return ("tie", "harness printed %d results for %d ops: %s" % (len(it), len(ops), i[:120]))
    seen, genuine, stripped, life = {}, set(), [], 0
    for k, (op, t) in enumerate(zip(ops, it)):
        if op[0] == "c":
            stripped.append(t)
            if t != "r%d" % stored:
                return ("spec", "op %d: restart resumed at %s, the value last handed to the save callback is %d" % (k + 1, t[1:], stored))
            life += 1
            continue
        sv = ""
        if "s" in t and t[0] not in "r":
            t, _, v = t.rpartition("s")
            if not v.isdigit():
                return ("tie", "unexpected harness token %r" % it[k])
            sv, stored = "s" + v, int(v)
        chal = t.startswith("chal:")
        if op[0] in "goeEwx":
            if op[0] != "x":
                genuine.add(int(op.split(".")[1]))
            if t == "acc" and op[0] == "x":
                return ("spec", "op %d: forged request %s accepted" % (k + 1, op))
            if not chal:
                stripped.append(t + sv)
                continue
            t = t[5:]
        if t == "err":
            stripped.append(t + sv)
            continue
        f = t.split("/")
        if len(f) != 3 or "." not in f[2]:
            return ("tie", "unexpected harness token %r" % it[k])
        piv, key, nonce = f
        stripped.append(("chal:" if chal else "") + piv + "/" + nonce + sv)
        nid, npiv = nonce.split(".")
        if (key, nonce) in seen:
            k0, life0 = seen[(key, nonce)]
            if not (piv == "-" and nid == "01" and life0 != life):
                return ("spec", "op %d (%s): protected with the same key and nonce (id.PIV %s, key %s..) as op %d (%s) — nonce reuse" % (
                    k + 1, op, nonce, key, k0 + 1, ops[k0]))
        seen[(key, nonce)] = (k, life)
        if piv != "-":
            if nid != "02" or npiv != piv:
                return ("spec", "op %d (%s): OSCORE option carries Partial IV %s but the nonce used is that of id %s, PIV %s" % (
                    k + 1, op, piv, nid, npiv))
        else:
            if op[0] in "qQDi" or chal:
                return ("spec", "op %d (%s): protected without a Partial IV of its own (nonce of id %s, PIV %s)" % (k + 1, op, nid, npiv))
            if nid != "01" or int(npiv) not in genuine:
                return ("spec", "op %d (%s): protected with the nonce of id %s, PIV %s, which is not the nonce of a request of the peer" % (
                    k + 1, op, nid, npiv))
    if " ".join(stripped) != m:
        return ("tie", "implementation %s but model M says %s" % (" ".join(stripped)[:170], m[:170]))
    return None


B2_ID1 = "1122334455667788"


def judge_b2c(ctx, c):
    """Appendix B.2, client side: every event of a `b2c` line is a response that does NOT verify.  Property on the
    implementation's own output: each is dropped and leaves b_2_step, the ID Context, the Sender Key and the sender
    sequence number exactly as they were (STEP_1, ID1 of the configuration, the key derived from ID1)."""
    i, m = c["impl"] or "", c["model"] or ""
    if i.startswith("crash"):
        return ("spec", "the implementation aborted: " + i[:200])
    evs = c["input"].split()[1:]
    toks = i.split()
    if len(toks) != len(evs):
        return ("tie", "harness printed %d results for %d events: %s" % (len(toks), len(evs), i[:120]))
    first, stripped = None, []
    for k, (ev, t) in enumerate(zip(evs, toks)):
        if t in ("bad-ev", "fail"):
            stripped.append(t)
            continue
        try:
            verdict, st = t.split(":")
            step, idc, key, seq = st.split(",")
        except ValueError:
            return ("tie", "unexpected harness token %r" % t)
        if verdict != "drop":
            return ("spec", "event %d (%s): a response that does not verify was not dropped (%s)" % (k + 1, ev, verdict))
        if step != "1" or idc != B2_ID1:
            return ("spec", "event %d (%s): a forged response changed the Appendix B.2 state of the client: b_2_step %s, "
                            "ID Context %s (was STEP_1, %s)" % (k + 1, ev, step, idc, B2_ID1))
        if first is None:
            first = (key, seq)
        elif (key, seq) != first:
            return ("spec", "event %d (%s): a forged response changed the Sender Key / sequence number: %s,%s -> %s,%s"
                    % (k + 1, ev, first[0], first[1], key, seq))
        stripped.append("%s:%s,%s" % (verdict, step, idc))
    if " ".join(stripped) != m:
        return ("tie", "implementation %s but model M says %s" % (" ".join(stripped)[:170], m[:170]))
    return None


def judge_b2s(ctx, c):
    """Appendix B.2, server side: every x/X event of a `b2s` line is a request that does NOT verify.  Property on the
    implementation's own output: it is rejected and b_2_step, oscore_r2 and the security contexts of the coap_context_t
    (number, ID Context of each) are exactly as after the previous event (`R` is a set-up step, not a message)."""
    i, m = c["impl"] or "", c["model"] or ""
    if i.startswith("crash"):
        return ("spec", "the implementation aborted: " + i[:200])
    evs = c["input"].split()[1:]
    toks = i.split()
    if len(toks) != len(evs):
        return ("tie", "harness printed %d results for %d events: %s" % (len(toks), len(evs), i[:120]))
    prev = "0,0,1,-"
    for k, (ev, t) in enumerate(zip(evs, toks)):
        if t in ("bad-ev", "fail"):
            continue
        if ":" not in t:
            return ("tie", "unexpected harness token %r" % t)
        verdict, st = t.split(":", 1)
        if ev == "R":
            prev = st
            continue
        if verdict == "acc":
            return ("spec", "event %d (%s): a request that does not verify was accepted" % (k + 1, ev))
        if st != prev:
            return ("spec", "event %d (%s): a forged request changed the Appendix B.2 state of the server "
                            "(b_2_step, oscore_r2 set, number of security contexts, their ID Contexts): %s -> %s" % (k + 1, ev, prev, st))
    if i != m:
        return ("tie", "implementation %s but model M says %s" % (i[:170], m[:170]))
    return None


def gen_b2s(rng):
    n = rng.randint(1, 8)
    evs = []
    for _ in range(n):
        c = rng.random()
        evs.append("R" if c < 0.2 else rng.choice("xX") + str(rng.choice([0, 1, 3, 8, 8, 9, 16, 23, rng.randint(0, 23)])))
    return "b2s " + " ".join(evs)


def gen_b2c(rng):
    n = rng.randint(1, 8)
    evs = []
    for _ in range(n):
        c = rng.random()
        evs.append("z" if c < 0.15 else "i" if c < 0.3 else "u" if c < 0.4 else "e" if c < 0.5
                   else "f%d" % rng.choice([0, 1, 2, 7, 8, 8, 9, 16, 23, rng.randint(0, 23)]))
    return "b2c " + " ".join(evs)


def judge(ctx, c):
    op = c["input"].split()[0]
    if op == "b2c":
        return judge_b2c(ctx, c)
    if op == "b2s":
        return judge_b2s(ctx, c)
    if op == "endp":
        return judge_endp(ctx, c)
    if op == "nonces":
        return judge_nonces(ctx, c)
    if op == "replay":
        return judge_replay(ctx, c)
    if op == "replayst":
        return judge_replayst(ctx, c)
    if op == "sender":
        return judge_sender(ctx, c)
    if op == "validate":
        i, m = c["impl"] or "", c["model"] or ""
        if i.startswith("crash"):
            return ("spec", "oscore_validate_sender_seq aborted (undefined behaviour): " + i[:200])
        if i != m:
            return ("tie", "oscore_validate_sender_seq: implementation %s but model M says %s" % (i, m))
        return None
    return ("tie", "unknown op")


def nontrivial(c):
    i = c["impl"] or ""
    op = c["input"].split()[0]
    if op in ("replay", "replayst"):
        return "acc:" in i
    if op == "sender":
        return any(t[0].isdigit() for t in i.split())
    if op in ("nonces", "endp"):
        return "/" in i
    if op == "b2c":
        return "drop:" in i
    if op == "b2s":
        return "rej" in i
    return i.startswith("1:") or i.startswith("0:")


def classify(c):
    w = c["input"].split()
    if w[0] == "replay":
        return "replay:b12=%s%s" % (w[2], ":with-responses" if any(e[0] in "nyrz" for e in w[3:]) else "")
    return w[0]


def mutate(rng, line):
    w = line.split()
    if w[0] != "replay" or len(w) < 4:
        return line
    evs = [e.split(".")[0] for e in w[3:]]
    k = rng.randrange(len(evs))
    c = rng.random()
    if c < 0.3 and len(evs) > 1:
        del evs[k]
    elif c < 0.6:
        evs.insert(k, rng.choice(evs))
    elif c < 0.7:
        evs[k] = rng.choice("aaxenny") + evs[k][1:]
        if evs[k][0] not in "xy":
            evs[k] = evs[k][0] + str(min(int(evs[k][1:]), SEQ_LIMIT - 2))
    else:
        p = max(0, int(evs[k][1:]) + rng.choice([-65, -64, -63, -2, -1, 1, 2, 63, 64, 65]))
        evs[k] = rng.choice("aaxenny") + str(min(p, SEQ_LIMIT - 2))
    if rng.random() < 0.2:
        w[1] = str(rng.randint(1, 63))
    return " ".join(w[:3] + with_forged_len(rng, evs[:40]))


def search(ctx, tie_breaks, proof):
    rng = ctx.rng
    out = []
    for c in tie_breaks[:40]:
        for _ in range(300):
            out.append(mutate(rng, c["input"]))
    alpha = [k + str(p) for k in "ax" for p in (0, 1, 2, 3, 4, 68, 69)]
    out += exhaustive([1, 2, 3, 63], [0], alpha, 4)
    alpha_m = [k + str(p) for k in "an" for p in (0, 1, 2, 3, 67)] + [k + str(p) for k in "xy" for p in (1, 3, 70)]
    out += exhaustive([2, 32], [0], alpha_m, 4)
    out += [gen_history(rng) for _ in range(40000)]
    out += [gen_mixed(rng) for _ in range(30000)]
    out += [gen_nonces(rng) for _ in range(20000)]
    out += [gen_endp(rng) for _ in range(20000)]
    out += exhaustive_nonces(4)
    return out


def shrink(ctx, case):
    """greedy event deletion while the implementation still contradicts the specification"""
    from vlib.runner import diff_side
    import props.C15 as me
    w = case["input"].split()
    hdr = 6 if w[0] == "replayst" else 2 if w[0] == "nonces" else 5 if w[0] == "endp" else 1 if w[0] in ("b2c", "b2s") else 3
    if w[0] not in ("replay", "replayst", "sender", "nonces", "endp", "b2c", "b2s") or len(w) < hdr + 2:
        return case
    best, evs = case, w[hdr:]
    changed, rounds = True, 0
    while changed and rounds < 8 and len(evs) > 1:
        changed = False
        rounds += 1
        cands = [evs[:k] + evs[k + 1:] for k in range(len(evs))]
        lines = [" ".join(w[:hdr] + e) for e in cands]
        for cc in diff_side(ctx, me, lines):
            v = judge(ctx, cc)
            if v and v[0] == "spec":
                cc["why"] = v[1]
                best = cc
                evs = cc["input"].split()[hdr:]
                changed = True
                break
    return best


def known(ctx, c):
    return None


# ---- T1X: the numerals of this property's models are tied to the current tree.  extract/consts2*.c + a source scan
# rewrite lean/CoapVerif/Generated/Consts2.lean on every check; Props/C15Consts.lean proves `<model numeral> =
# Generated.C2.<name>` (design/T1.md).  A changed macro / struct size / literal breaks one of these named obligations.
LEAN_MODULES = list(LEAN_MODULES) + ["CoapVerif.Props.C15Consts"]
REQUIRED_THEOREMS = list(REQUIRED_THEOREMS) + [
    "seqMax_matches_code",
    "seqLimit_matches_code",
    "tagLen_matches_code",
    "windowBits_matches_code",
]
TRUSTED_BASE = list(TRUSTED_BASE) + ["T1 extractors extract/consts2.c, consts2_net.c, consts2_opt.c and the source scan vlib/tables.py scan_consts2 (Generated/Consts2.lean)"]
_t1x_prev_extract = globals().get("extract")


def extract(ctx):
    from vlib import tables
    return (_t1x_prev_extract(ctx) if _t1x_prev_extract else []) + tables.extract_consts2()
