"""C15 — OSCORE replay protection, nonce uniqueness, forgeries leave no trace (DESIGN.md §4 C15, design/C15.md)."""
import itertools
from vlib import common as C

MANIFEST = {
    "text": "Lean theorems about the transcription M of oscore_validate_sender_seq, oscore_roll_back_seq, the request path of "
            "coap_oscore_decrypt_pdu and the sender sequence/save-watermark code: accept_at_most_once (every history of a recipient "
            "context, any window size, Appendix B.1.2 on or off, jumps >= 64: accepted Partial IVs pairwise distinct), "
            "forged_never_accepted / forgery_no_trace / forgery_invisible (a request failing authentication leaves initial_state, "
            "last_seq and sliding_window unchanged in every state and changes no later verdict), fresh_in_window_accepted (liveness), "
            "no_ub_shift, recv_conforms_spec + spec_accept_at_most_once (M refines the set-of-accepted-PIVs monitor S written from "
            "RFC 8613, and S implies the property), piv_never_reused (PIVs strictly increasing over all protect / crash-restart "
            "sequences, every ssn_freq). M is tied to the compiled code by differential runs of the real coap_oscore_decrypt_pdu / "
            "coap_oscore_new_pdu_encrypted on generated and exhaustive short histories (I vs M vs S, state compared after every event).",
    "note": "Trusted: Lean kernel (+ propext, Classical.choice, Quot.sound), harness/replay.c, generators and the Python monitor, the "
            "hand transcription M (checked against the compiled code on the cases run only). The AEAD is an oracle (authentic / forged). "
            "piv_never_reused assumes fewer than 2^63 operations (uint64 counter). Five defects of the pinned tree were fixed "
            "(KNOWN_FINDINGS.txt); M models the fixed code.",
    "design_ref": "DESIGN.md §4 C15, design/C15.md",
}
LEAN_MODULES = ["CoapVerif.Props.C15"]
NAMESPACE = "Coap.C15"
REQUIRED_THEOREMS = ["accept_at_most_once", "forged_never_accepted", "forgery_no_trace", "forgery_invisible",
                     "fresh_in_window_accepted", "no_ub_shift", "no_ub_recv", "recv_conforms_spec",
                     "spec_accept_at_most_once", "spec_forged_rejected", "piv_never_reused"]
RULE = ("recipient: histories of <= 30 protected requests (authentic with/without/with wrong Echo, forged with any claimed "
        "Partial IV) delivered through coap_oscore_decrypt_pdu to a fresh recipient context, replay window 1..63 (a few 64, 100), "
        "Appendix B.1.2 on/off; PIVs chosen as small gaps, in-window lower values, both sides of the window edge, jumps >= 64, "
        "replays of earlier PIVs, values next to 2^40-1; exhaustive short histories over a small PIV alphabet; "
        "sender: protect/crash-restart sequences with ssn_freq 1..9 (some large) through coap_oscore_new_pdu_encrypted and the "
        "save callback; direct calls of oscore_validate_sender_seq on random states; the fixed corpus. "
        "non-trivial = distinct history in which at least one request was accepted / one PIV was sent")
TRUSTED_BASE = ["Lean 4.33 kernel; axioms allowed: propext, Classical.choice, Quot.sound (audited per theorem each run)",
                "harness/replay.c (drives coap_oscore_decrypt_pdu / coap_oscore_new_pdu_encrypted of the rebuilt libcoap; "
                "--wrap=coap_send_internal records the response, --wrap=oscore_cbor_put_bytes avoids memcpy(dst,NULL,0) in key "
                "derivation), generators, the Python monitor in props/C15.py and string comparison",
                "M (CoapVerif/Model/Replay.lean) is a hand transcription of oscore_validate_sender_seq, oscore_roll_back_seq, "
                "oscore_increment_sender_seq and their call sites; checked against the compiled code only on the cases run",
                "the AEAD (GnuTLS AES-CCM) is an oracle: 'authentic' = produced by the real sender code with the shared key, "
                "'forged' = ciphertext that does not verify"]
ASSUMPTIONS = ["a request that does not authenticate is one whose AEAD verification fails (cryptographic unforgeability is C14's oracle)",
               "the value handed to the save callback is what start_seq_num is at the next start (the callback persists it)",
               "piv_never_reused: fewer than 2^63 protect/restart operations and a start value <= 2^40 (else the uint64 counter itself wraps)",
               "requests of one recipient context are processed one at a time (thread safety is C13)",
               "compiled Lean definitions agree with the kernel's reading of them"]
SPEC_DECISIONS = ["D15a a never-accepted authentic request older than the window may be accepted or rejected; windows above 64 are capped at 64",
                  "D15b PIV >= 2^40-1 may be rejected", "D15c Appendix B.1.2: no Echo -> challenge, wrong Echo -> not accepted, right Echo -> accepted",
                  "D15d 'state exactly as before' = (initial_state, last_seq, sliding_window); roll-back scratch fields excluded, shown irrelevant"]
WRAPS = ["coap_send_internal", "oscore_cbor_put_bytes"]
SEQ_LIMIT = 2 ** 40 - 1


def harness(ctx):
    return C.build_harness("replay", C.build_libcoap(), wraps=WRAPS)


# ----------------------------------------------------------------------------------------------------------------
# generators
# ----------------------------------------------------------------------------------------------------------------
def gen_history(rng, maxlen=30):
    w = rng.choice([rng.randint(1, 63)] * 6 + [1, 2, 32, 63, 64, 100])
    b12 = rng.choice([0, 1])
    n = rng.randint(1, maxlen)
    evs = []
    seen = []
    hi = rng.choice([0, 0, 0, 1, 5, rng.randint(0, 200), rng.randint(0, 2 ** 20), 2 ** 32 - 2, 2 ** 40 - 80])
    first = True
    for _ in range(n):
        c = rng.random()
        top = max(seen) if seen else hi
        if first:
            p = hi
        elif c < 0.22:
            p = top + rng.choice([1, 1, 1, 2, 3])
        elif c < 0.32:
            p = top + rng.choice([w - 1, w, w + 1, w + 2, 62, 63, 64, 65, 66, 127, 128, rng.randint(64, 5000)])
        elif c < 0.52:
            p = top - rng.randint(1, max(1, min(w + 2, 66)))
        elif c < 0.64:
            p = top - rng.choice([w - 1, w, w + 1, w + 2, 62, 63, 64, 65])
        elif c < 0.84 and seen:
            p = rng.choice(seen)
        elif c < 0.88:
            p = rng.choice([0, 1, SEQ_LIMIT - 3, SEQ_LIMIT - 2])
        else:
            p = rng.randint(0, top + 70)
        p = max(0, p)
        k = rng.random()
        if k < 0.22:
            kind = "x"
            if rng.random() < 0.15:
                p = rng.choice([SEQ_LIMIT - 1, SEQ_LIMIT, top + rng.randint(64, 2 ** 30), 2 ** 40 - 1])
        elif b12 and k < (0.60 if first or rng.random() < 0.2 else 0.30):
            kind = rng.choice("eeeaw")
        elif k < 0.27:
            kind = rng.choice("ew")
        else:
            kind = "a"
        if kind != "x":
            p = min(p, SEQ_LIMIT - 2)      # the real sender cannot protect a message with a higher sequence number
        p = min(p, 2 ** 40 - 1)            # a Partial IV has at most 5 bytes
        evs.append("%s%d" % (kind, p))
        seen.append(p)
        first = False
    return "replay %d %d %s" % (w, b12, " ".join(evs))


def gen_sender(rng, maxlen=40):
    f = rng.choice([1, 1, 2, 3, 4, 5, 7, 9, rng.randint(1, 9), 100, 2 ** 32 - 1, 0])
    start = rng.choice([0, 0, 0, 0, rng.randint(0, 50), SEQ_LIMIT - rng.randint(1, 12)])
    ops = []
    for _ in range(rng.randint(1, maxlen)):
        if rng.random() < 0.2:
            ops.append("c%d" % rng.choice([f, f, f, rng.randint(0, 9), 2 ** 32 - 1]))
        else:
            ops.append("p")
    return "sender %d %d %s" % (f, start, " ".join(ops))


def gen_validate(rng):
    w = rng.choice([rng.randint(1, 63), 32, 64, 100])
    last = rng.choice([0, 1, rng.randint(0, 300), rng.randint(0, 2 ** 40)])
    win = rng.choice([1, 3, 5, rng.getrandbits(64) | 1, rng.getrandbits(64), 2 ** 63 + 1, 2 ** 64 - 1, 0])
    d = rng.choice([0, 1, -1, 2, -2, w, -w, w + 1, -w - 1, 63, -63, 64, -64, 65, -65, rng.randint(-80, 80), rng.randint(-2 ** 20, 2 ** 20)])
    piv = rng.choice([max(0, last + d)] * 8 + [SEQ_LIMIT - 1, SEQ_LIMIT, SEQ_LIMIT + 1, 2 ** 64 - 1])
    return "validate %d %d %d %d %d" % (w, rng.choice([0, 0, 0, 1]), last, win, piv)


def exhaustive(windows, b12s, alphabet, maxlen):
    out = []
    for w in windows:
        for b in b12s:
            for n in range(1, maxlen + 1):
                for evs in itertools.product(alphabet, repeat=n):
                    out.append("replay %d %d %s" % (w, b, " ".join(evs)))
    return out


def generate(ctx, escalate=False):
    rng = ctx.rng
    thorough = ctx.thorough()
    n = 150000 if thorough else 12000
    if escalate:
        n *= 3
    out = []
    for i in range(n):
        out.append(gen_history(rng))
    for i in range(n // 4):
        out.append(gen_sender(rng))
    for i in range(n // 3):
        out.append(gen_validate(rng))
    # exhaustive short histories (every order of fresh / replay / forged over a small PIV alphabet incl. a jump >= 64)
    if thorough:
        alpha = [k + str(p) for k in "ax" for p in (0, 1, 2, 3, 4, 68, 69)]
        ex = exhaustive([1, 2, 3, 63], [0], alpha, 4)
        alpha_b = [k + str(p) for k in "aex" for p in (0, 1, 2, 66)]
        ex += exhaustive([1, 2, 32], [1], alpha_b, 4)
    else:
        alpha = [k + str(p) for k in "ax" for p in (0, 1, 2, 4, 70)]
        ex = exhaustive([1, 2, 32], [0], alpha, 3)
        alpha_b = [k + str(p) for k in "aex" for p in (0, 1, 3)]
        ex += exhaustive([2], [1], alpha_b, 3)
    ctx.cov["exhaustive"] = ("all histories of length <= %d over %d event symbols" % (4 if thorough else 3, len(alpha)) +
                             " (windows %s, B.1.2 off) and over %d symbols with Echo (B.1.2 on): %d cases" % (
                                 "1,2,3,63" if thorough else "1,2,32", len(alpha_b), len(ex)))
    return out + ex


# ----------------------------------------------------------------------------------------------------------------
# S as a monitor over the implementation's own trace (independent of M), mirrors Spec/Replay.lean
# ----------------------------------------------------------------------------------------------------------------
def out_class(v):
    return "acc" if v == "acc" else "chal" if v == "chal" else "rej"


def allowed(window, accepted, synced, kind, piv):
    if kind == "x":
        return ["rej"]
    if not synced:
        if kind == "a":
            return ["chal"]
        if kind == "w":
            return ["rej"]
        return ["acc", "rej"] if piv >= SEQ_LIMIT else ["acc"]
    if piv in accepted:
        return ["rej"]
    if piv >= SEQ_LIMIT:
        return ["acc", "rej"]
    if not accepted or max(accepted) < piv + min(window, 64):
        return ["acc"]
    return ["acc", "rej"]


def judge_replay(ctx, c):
    w = c["input"].split()
    window, b12, evs = int(w[1]) or 32, int(w[2]) != 0, w[3:]
    i, m, s = c["impl"] or "", c["model"] or "", c["spec"] or ""
    if i.startswith("crash"):
        return ("spec", "the implementation aborted (sanitizer / undefined behaviour): " + i[:200])
    it, mt, st = i.split(), m.split(), s.split()
    if len(it) != len(evs):
        return ("tie", "harness printed %d results for %d events: %s" % (len(it), len(evs), i[:120]))
    accepted, synced = set(), not b12
    prev = "1,0,0"
    lock = True
    tie = None
    for k, ev in enumerate(evs):
        kind, piv = ev[0], int(ev[1:])
        try:
            v, state = it[k].split(":")
        except ValueError:
            return ("tie", "unparsable harness token %r" % it[k])
        al = allowed(window, accepted, synced, kind, piv)
        cls = out_class(v)
        if cls not in al:
            what = {"x": "forged request", "a": "authentic request", "e": "authentic request with the right Echo",
                    "w": "authentic request with a wrong Echo"}[kind]
            why = "event %d (%s, PIV %d): implementation %s, allowed %s" % (k + 1, what, piv, v, "/".join(al))
            if cls == "acc" and piv in accepted:
                why += " — PIV accepted twice"
            elif kind != "x" and cls == "rej" and al == ["acc"]:
                why += " — fresh in-window request rejected (accepted so far: %s)" % sorted(accepted)[-6:]
            return ("spec", why)
        if kind == "x" and state != prev:
            return ("spec", "event %d: forged request (PIV %d) changed the replay state %s -> %s" % (k + 1, piv, prev, state))
        if lock and k < len(st) and "/".join(al) != st[k] and tie is None:
            tie = ("tie", "event %d: Lean S allows %s, the Python monitor %s" % (k + 1, st[k], "/".join(al)))
        if lock and (k >= len(mt) or it[k] != mt[k]):
            lock = False
            if tie is None:
                tie = ("tie", "event %d (%s): implementation %s but model M says %s" % (k + 1, ev, it[k], mt[k] if k < len(mt) else "-"))
        if cls == "acc":
            accepted.add(piv)
            synced = True
        prev = state
    return tie


def judge_sender(ctx, c):
    i, m = c["impl"] or "", c["model"] or ""
    if i.startswith("crash"):
        return ("spec", "the implementation aborted: " + i[:200])
    pivs, stored = [], int(c["input"].split()[2])
    for k, t in enumerate(i.split()):
        if t[0] == "r":
            if int(t[1:]) != stored:
                return ("spec", "restart %d resumed at %s, the value last handed to the save callback is %d" % (k + 1, t[1:], stored))
            continue
        if "s" in t:
            t, sv = t.split("s")
            stored = int(sv)
        if t.isdigit():
            if int(t) in pivs:
                return ("spec", "op %d: Partial IV %s put on the wire twice" % (k + 1, t))
            pivs.append(int(t))
        elif t != "err":
            return ("tie", "unexpected harness token %r" % t)
    if c["spec"] != "distinct":
        return ("tie", "model M reuses a Partial IV on this history")
    if i != m:
        return ("tie", "implementation %s but model M says %s" % (i[:150], m[:150]))
    return None


def judge(ctx, c):
    op = c["input"].split()[0]
    if op == "replay":
        return judge_replay(ctx, c)
    if op == "sender":
        return judge_sender(ctx, c)
    if op == "validate":
        i, m = c["impl"] or "", c["model"] or ""
        if i.startswith("crash"):
            return ("spec", "oscore_validate_sender_seq aborted (undefined behaviour): " + i[:200])
        if i != m:
            return ("tie", "oscore_validate_sender_seq: implementation %s but model M says %s" % (i, m))
        return None
    return ("tie", "unknown op")


def nontrivial(c):
    i = c["impl"] or ""
    op = c["input"].split()[0]
    if op == "replay":
        return "acc:" in i
    if op == "sender":
        return any(t[0].isdigit() for t in i.split())
    return i.startswith("1:") or i.startswith("0:")


def classify(c):
    w = c["input"].split()
    if w[0] == "replay":
        return "replay:b12=%s" % w[2]
    return w[0]


def mutate(rng, line):
    w = line.split()
    if w[0] != "replay" or len(w) < 4:
        return line
    evs = w[3:]
    k = rng.randrange(len(evs))
    c = rng.random()
    if c < 0.3 and len(evs) > 1:
        del evs[k]
    elif c < 0.6:
        evs.insert(k, rng.choice(evs))
    else:
        p = max(0, int(evs[k][1:]) + rng.choice([-65, -64, -63, -2, -1, 1, 2, 63, 64, 65]))
        evs[k] = rng.choice("aaxe") + str(min(p, SEQ_LIMIT - 2))
    if rng.random() < 0.2:
        w[1] = str(rng.randint(1, 63))
    return " ".join(w[:3] + evs[:40])


def search(ctx, tie_breaks, proof):
    rng = ctx.rng
    out = []
    for c in tie_breaks[:40]:
        for _ in range(300):
            out.append(mutate(rng, c["input"]))
    alpha = [k + str(p) for k in "ax" for p in (0, 1, 2, 3, 4, 68, 69)]
    out += exhaustive([1, 2, 3, 63], [0], alpha, 4)
    out += [gen_history(rng) for _ in range(60000)]
    return out


def shrink(ctx, case):
    """greedy event deletion while the implementation still contradicts the specification"""
    from vlib.runner import diff_side
    import props.C15 as me
    w = case["input"].split()
    if w[0] not in ("replay", "sender") or len(w) < 5:
        return case
    best, evs = case, w[3:]
    changed, rounds = True, 0
    while changed and rounds < 8 and len(evs) > 1:
        changed = False
        rounds += 1
        cands = [evs[:k] + evs[k + 1:] for k in range(len(evs))]
        lines = [" ".join(w[:3] + e) for e in cands]
        for cc in diff_side(ctx, me, lines):
            v = judge(ctx, cc)
            if v and v[0] == "spec":
                cc["why"] = v[1]
                best = cc
                evs = cc["input"].split()[3:]
                changed = True
                break
    return best


def known(ctx, c):
    return None
