"""I-vs-S oracle for C11: judges the IMPLEMENTATION's trace (harness/observe.c output) against the property text alone.
Nothing here looks at the Lean model's output.  Every violation is (tag, message); tags listed in KNOWN_TAGS are the
signatures of open findings (KNOWN_FINDINGS.txt)."""
import re

HALF = 1 << 23
MOD = 1 << 24
NOT_MODELLED = "not-modelled blockwise"     # the Lean driver's answer for a line with a block-wise resource (Driver/Observe.lean)
BLOCK_WAIT_MS = 2000      # how long the server may hold a notification back behind a block-wise transfer to the same client
                          # that the client has stopped driving (libcoap: 2 s after the last block it sent); fairness bound
VER_MOD = 251             # harness/observe.c: every byte of a block-wise body = (number of chg events on the resource) mod 251


def is_blockwise(inp):
    """recognised from the INPUT line only: some resource in R= has mode letter b (or B = b with NOTIFY_CON)"""
    w = inp.split()
    return len(w) >= 3 and w[0] == "obs" and w[2].startswith("R=") and any(x[:1] in ("b", "B") for x in w[2][2:].split(","))


def serial_gt(new, old):
    """RFC 7641 §3.4 (without the 128 s escape): `new` is fresher than `old`"""
    return (old < new and new - old < HALF) or (old > new and old - new > HALF)


def parse_state(s):
    st = {"R": {}, "S": {}, "Q": [], "t": None, "P": None, "L": {}}
    for w in s.split():
        if w.startswith("t="):
            st["t"] = int(w[2:])
        elif w[0] == "P" and w[1:].isdigit():
            st["P"] = int(w[1:])
        elif w[0] == "R":
            k, v = w[1:].split("=", 1)
            if v == "x":
                st["R"][int(k)] = None
            else:
                m = re.match(r"(\d+)/(\d)(\d)\[(.*)\]$", v)
                subs = []
                if m.group(4):
                    for e in m.group(4).split(","):
                        f = e.split(".")
                        subs.append({"c": int(f[0]), "tok": f[1], "non": int(f[2]), "fail": int(f[3]), "dirty": int(f[4]), "mid": int(f[5])})
                st["R"][int(k)] = {"observe": int(m.group(1)), "dirty": int(m.group(2)), "pdirty": int(m.group(3)), "subs": subs}
        elif w[0] == "S":
            k, v = w[1:].split("=", 1)
            st["S"][int(k)] = None if v == "-" else dict(zip(("ref", "con", "txmid"), map(int, v.split("/"))))
        elif w[0] == "L" and "=" in w:
            # block-wise lines: lg_xmit list of the session (diagnostic only, no clause reads it)
            k, v = w[1:].split("=", 1)
            st["L"][int(k)] = None if v == "-" else dict(zip(("n", "last_obs", "all_sent"), map(int, v.split("."))))
        elif w[0] == "Q":
            body = w[2:-1]
            for e in body.split(",") if body else []:
                f = e.split(".")
                st["Q"].append({"c": int(f[0]), "mid": int(f[1]), "due": int(f[2]), "cnt": int(f[3])})
    return st


def parse_out(w):
    if w[0] == "x":
        c, n = w[1:].split(".")
        return {"tag": "x", "c": int(c), "n": None if n == "?" else int(n)}
    f = w.split(":")
    head = f[0]
    o = {"tag": head[0], "tok": f[1], "code": int(f[2]), "obs": None if f[3] == "-" else int(f[3]), "kind": f[4], "mid": int(f[5])}
    if head[0] == "n":
        c, n = head[1:].split(".")
        o["c"], o["n"] = int(c), int(n)
    else:
        o["c"] = int(head[1:])
    o["blk"] = o["plen"] = o["pver"] = None
    if len(f) > 6:
        # block-wise lines: Block2 option num/m/szx or -, then payload length / the body version its bytes spell or -
        if f[6] != "-":
            o["blk"] = dict(zip(("num", "m", "szx"), map(int, f[6].split("/"))))
        ln, v = f[7].split("/")
        o["plen"] = int(ln)
        o["pver"] = None if v == "-" else int(v)
    return o


def held_back_behind_blocks(impl):
    """COVERAGE STATISTICS ONLY (no verdict depends on it): did some event leave an observer entry dirty, its resource partially
    dirty, with no Confirmable outstanding on the session but a block-wise transfer of the session (head lg_xmit) unfinished and
    used less than BLOCK_WAIT_MS ago?  That is the state the lg_xmit deferral branch of coap_notify_observers leaves behind."""
    try:
        for part in impl.split(" ||", 1)[0].split(" | "):
            st = parse_state(part.split(";", 1)[1])
            for rr in st["R"].values():
                if rr and rr["pdirty"]:
                    for x in rr["subs"]:
                        sess, lg = st["S"].get(x["c"]), st["L"].get(x["c"])
                        if x["dirty"] and sess and sess["con"] == 0 and lg and lg["all_sent"] == 0 and lg["last_obs"] + BLOCK_WAIT_MS > st["t"]:
                            return True
    except Exception:
        pass
    return False


TOK_FAMILIES = [[0x51, 0x62, 0x73, 0x84, 0x95, 0xa6, 0xb7, 0xc8], [0] * 8,
                [0xa0, 0x01, 0x02, 0x03, 0x04, 0x05, 0x06, 0x07], [0x9f, 0x80, 0x9f, 0x80, 0x9f, 0x80, 0x9f, 0x80]]


def tok_of(c, t):
    """harness/observe.c: token index t < 128 -> bytes (0xA0 + c, t), a value only client c uses; t >= 128 -> bytes (0x9F, t), the
    same value whichever client sends it (tokens are only unique per client endpoint: an observer is (client, token));
    t = 256 + 9*f + len -> the first len (0..8) bytes of the 8-byte string TOK_FAMILIES[f] (`-` = the empty token).  A token is
    the whole byte string, length included (RFC 7252 §3, §5.3.1): the empty token and a proper prefix of another token are other
    tokens — the registry below is keyed by the printed string, so it never confuses them."""
    if t >= 256:
        n = (t - 256) % 9
        return "".join("%02x" % b for b in TOK_FAMILIES[(t - 256) // 9][:n]) or "-"
    return "%02x%02x" % (0x9F if t >= 128 else 0xA0 + c, t)


def target_of(f):
    """what, beside client and resource, identifies the observation a scripted request is about: the query variant (field 4) and —
    round R11c — method + payload (9th field: 0 / absent = GET, 1..4 = FETCH with that payload variant; RFC 8132 §2: the payload of a
    FETCH is part of the cache key, RFC 7252 §5.6: so is the method).  ETag / NoCacheKey extras (8th field) are NOT part of it."""
    return int(f[4]) + 10 * (int(f[8]) if len(f) > 8 else 0)


def check(inp, impl, consts):
    """returns a list of (tag, message); empty = the trace satisfies the property"""
    max_non = consts.get("obsMaxNon", 5)
    viol = []
    w = inp.split()
    rmodes = [x[0] for x in w[2][2:].split(",")]
    evs = w[4:]
    main = impl.split(" ||", 1)[0]
    parts = main.split(" | ")
    if len(parts) != len(evs):
        return [("malformed", "implementation printed %d event records for %d events" % (len(parts), len(evs)))]
    reg = {}          # (c, tok) -> {r: {"q": q or None (ambiguous)}}   the property's registry of observations
    last = {}         # (c, tok) -> (value, was_registration_response, event index)
    kinds = {}        # (c, tok) -> list of 'C'/'N' of change notifications since (re)registration of a fresh entry
    dead = {}         # (c, tok) -> cause, event index  (deregistered and not re-registered)
    notes = {}        # c -> list of out dicts (server initiated datagrams)
    errflag = {}
    prev = None
    chg_at = {}       # r -> indices of chg events
    sup = {}          # (c, tok) -> event index of a Reset the server could not attribute (open finding)
    epoch = {}        # (c, tok) -> event index of the registration that created the current entry
    bw = is_blockwise(inp)
    bres = set(r for r, m in enumerate(rmodes) if m in ("b", "B"))     # resources answering with a body larger than one block
    nver = {}         # r -> number of chg events so far = the version every byte of a block-wise body spells (mod 251)
    lastver = {}      # (c, tok) -> (body version in the first block last sent under this token, event index)
    t_blk = {}        # c -> virtual time of the last datagram with a Block2 option sent to client c
    used = {}         # c -> token values client c has put into a request so far
    amb = set()       # (c, tok) used by the client against the rules (one token on two resources at once, or re-used with
                      # another query): what "the observation" is becomes ambiguous; such keys follow the server's table and
                      # are not judged until the table lists them nowhere

    def changed_between(r, k0, k1):
        return any(k0 < x < k1 for x in chg_at.get(r, []))
    for k, (ev, part) in enumerate(zip(evs, parts)):
        outs_s, st_s = part.split(" ; ", 1) if " ; " in part else (part.split(";")[0], part.split(";", 1)[1])
        outs = [parse_out(x) for x in outs_s.split()] if outs_s.strip() else []
        st = parse_state(st_s)
        f = ev.split(":")
        op = f[0]

        def deregister(c, tok, r, cause):
            d = reg.get((c, tok))
            if d and r in d:
                del d[r]
                if not d:
                    del reg[(c, tok)]
                    dead[(c, tok)] = (cause, k)
                    kinds.pop((c, tok), None)
                    last.pop((c, tok), None)

        # ---- deregistration causes that take effect BEFORE this event's datagrams are written
        req_resp = None
        if op in ("reg", "can", "get"):
            c, r, t, q = int(f[1]), int(f[2]), int(f[3]), target_of(f)
            tok = tok_of(c, t)
            used.setdefault(c, set()).add(tok)
            req_resp = next((o for o in outs if o["tag"] == "p"), None)
            if op == "can":
                if (c, tok) in reg and r in reg[(c, tok)]:
                    deregister(c, tok, r, "Observe=1 request")
                else:
                    for (c2, tok2), d in list(reg.items()):
                        if c2 == c and r in d and d[r]["q"] == q and (c2, tok2) not in amb:
                            deregister(c2, tok2, r, "Observe=1 request (same cache key, other token)")
        elif op == "rst":
            c, n = int(f[1]), int(f[2])
            lst = notes.get(c, [])
            if n >= 1000:
                n = len(lst) - 1 - (n - 1000)
            if 0 <= n < len(lst):
                nt = lst[n]
                key = (c, nt["tok"])
                # a Reset counts if the notification it names belongs to the CURRENT registration of that token, or is a
                # Confirmable one the server is still retransmitting (then the server cannot but attribute it to the
                # token); a late Reset of a finished notification of an EARLIER registration says nothing about this one
                inq0 = prev and any(qn["c"] == c and qn["mid"] == nt["mid"] for qn in prev["Q"])
                if inq0:
                    # message ids repeat after the server re-created the session: the datagram in the queue is the most
                    # recent one with that id, and it is ITS token the Reset is about
                    nt = next(x for x in reversed(lst) if x["mid"] == nt["mid"])
                    key = (c, nt["tok"])
                if key in reg and key not in amb and ((nt["code"] == 69 and nt["k"] >= epoch.get(key, 0)) or inq0):
                    # is this RST one libcoap can still attribute?  (signature of the open finding)
                    inq = prev and any(qn["c"] == c and qn["mid"] == nt["mid"] for qn in prev["Q"])
                    latest = prev and any(rr and any(s["c"] == c and s["tok"] == nt["tok"] and s["mid"] == nt["mid"] for s in rr["subs"])
                                          for rr in prev["R"].values())
                    for r in list(reg[key].keys()):
                        deregister(c, nt["tok"], r, "Reset in reply to notification #%d" % n)
                    if not inq and not latest:
                        dead[key] = ("superseded-rst", k)
                        sup[key] = k
                        amb.add(key)      # from here on the server's table says what it still believes
                # the server matches a Reset by message id: an entry whose current message id is the one named is reset too
                if prev:
                    for r, rr in prev["R"].items():
                        for x in (rr["subs"] if rr else []):
                            if x["c"] == c and x["mid"] == nt["mid"] and (c, x["tok"]) in reg and (c, x["tok"]) not in amb \
                                    and r in reg[(c, x["tok"])]:
                                deregister(c, x["tok"], r, "Reset naming the entry's current message id")
        elif op == "lost":
            c = int(f[1])
            if prev is None or prev["S"].get(c) is not None:
                for (c2, tok2) in [x for x in reg if x[0] == c]:
                    for r in list(reg[(c2, tok2)].keys()):
                        deregister(c2, tok2, r, "session loss")
        elif op == "del":
            r = int(f[1])
            for key in list(reg.keys()):
                if r in reg[key]:
                    deregister(key[0], key[1], r, "resource deletion")
        elif op == "err":
            errflag[int(f[1])] = int(f[2])
        elif op == "blk":
            used.setdefault(int(f[1]), set()).add(tok_of(int(f[1]), int(f[3])))
            # GET for one more block of a body in progress, no Observe option: no effect on any registration
        elif op == "chg":
            if prev is None or prev["R"].get(int(f[1])) is not None:
                nver[int(f[1])] = nver.get(int(f[1]), 0) + 1
            rr = prev["R"].get(int(f[1])) if prev else None
            if rr and rr["subs"]:                      # a change is signalled to the observers only if there are any
                chg_at.setdefault(int(f[1]), []).append(k)

        # ---- CON notifications that left the queue without ACK / RST / session loss in this event: given up
        if prev is not None:
            for qn in prev["Q"]:
                if not any(x["c"] == qn["c"] and x["mid"] == qn["mid"] for x in st["Q"]):
                    if op in ("ack", "rst") and int(f[1]) == qn["c"]:
                        continue
                    if op == "lost" and int(f[1]) == qn["c"]:
                        continue
                    if op in ("adv", "io", "reg", "can", "get", "blk", "ack", "rst") and qn["cnt"] >= consts.get("maxRetransmit", 4) and qn["due"] <= st["t"]:
                        nt = next((x for x in reversed(notes.get(qn["c"], [])) if x["mid"] == qn["mid"]), None)
                        if nt:
                            key = (qn["c"], nt["tok"])
                            # a failed Confirmable notification deregisters — it was written before this event, so
                            # anything sent to that observer in THIS event after the give-up is already too late;
                            # libcoap runs the notify loop before the retransmission timers, so we apply it afterwards
                            st.setdefault("_giveup", []).append(key)

        # ---- datagrams of this event
        for o in outs:
            if o["tag"] == "x":
                continue
            c = o["c"]
            key = (c, o["tok"])
            if o["blk"] is not None:
                t_blk[c] = st["t"]
            if o["tag"] == "n":
                o["k"] = k
                notes.setdefault(c, []).append(o)
                if len(notes[c]) - 1 != o["n"]:
                    viol.append(("malformed", "event #%d: datagram index %d out of sequence" % (k, o["n"])))
            if o["tag"] == "n" and o["code"] == 69:
                if o["obs"] is None:
                    viol.append(("no-observe-option", "event #%d (%s): 2.05 notification to client %d token %s without Observe option" % (k, ev, c, o["tok"])))
                    continue
                if o["obs"] >= MOD:
                    viol.append(("observe-range", "event #%d (%s): notification to client %d token %s carries Observe=%d, not a 24-bit value" % (
                        k, ev, c, o["tok"], o["obs"])))
                if o["tok"] not in used.get(c, ()):
                    viol.append(("foreign-token", "event #%d (%s): notification to client %d carries token %s" % (k, ev, c, o["tok"])))
                if key in sup:
                    viol.append(("superseded-rst", "event #%d (%s): notification Observe=%s sent to client %d token %s after its Reset (event #%d) of a "
                                 "superseded notification" % (k, ev, o["obs"], c, o["tok"], sup[key])))
                    continue
                if key in amb:
                    continue
                if key not in reg:
                    cause = dead.get(key)
                    if cause and cause[0] == "superseded-rst":
                        viol.append(("superseded-rst", "event #%d (%s): notification %s sent to client %d token %s after its Reset (event #%d) of a "
                                     "superseded notification" % (k, ev, o["obs"], c, o["tok"], cause[1])))
                    else:
                        viol.append(("after-dereg", "event #%d (%s): notification Observe=%s sent to client %d token %s which is not registered%s" % (
                            k, ev, o["obs"], c, o["tok"], " (deregistered by %s at event #%d)" % cause if cause else "")))
                    continue
                rs0 = list(reg[key].keys())
                if key in last and last[key][3] != rs0[0]:
                    last.pop(key)
                if key in last:
                    v0, was_reg, k0, _ = last[key]
                    if not serial_gt(o["obs"], v0):
                        if was_reg and o["obs"] == v0 and len(rs0) == 1 and not changed_between(rs0[0], k0, k):
                            pass     # SPEC DECISION D13: same state as the registration response, same number
                        elif was_reg and o["obs"] == v0:
                            viol.append(("reg-equal", "event #%d (%s): notification to client %d token %s carries Observe=%d, equal to the value in "
                                         "the registration response of event #%d" % (k, ev, c, o["tok"], o["obs"], k0)))
                        else:
                            viol.append(("not-increasing", "event #%d (%s): notification to client %d token %s carries Observe=%d, not greater (24-bit "
                                         "serial arithmetic) than %d sent at event #%d" % (k, ev, c, o["tok"], o["obs"], v0, k0)))
                last[key] = (o["obs"], False, k, rs0[0])
                if bw and len(rs0) == 1 and rs0[0] in bres:
                    # block-wise notification: it is the FIRST block that carries the Observe option, and the body is the
                    # resource's state at the time it is sent
                    if o["blk"] is not None and o["blk"]["num"] != 0:
                        viol.append(("blockwise-note-not-first-block", "event #%d (%s): notification Observe=%d to client %d token %s starts at block %d" % (
                            k, ev, o["obs"], c, o["tok"], o["blk"]["num"])))
                    if o["pver"] != nver.get(rs0[0], 0) % VER_MOD:
                        viol.append(("stale-body", "event #%d (%s): notification Observe=%d to client %d token %s carries body version %s, r%d is at version %d" % (
                            k, ev, o["obs"], c, o["tok"], o["pver"], rs0[0], nver.get(rs0[0], 0) % VER_MOD)))
                    lastver[key] = (o["pver"], k)
                # confirmable cadence, per registration, only where one resource is observed under this token
                rs = rs0
                if rmodes[rs[0]] in "dnb":
                    ks = kinds.setdefault(key, [])
                    ks.append(o["kind"])
                    if len(ks) > max_non and "C" not in ks[-(max_non + 1):]:
                        viol.append(("no-con-in-window", "event #%d (%s): the last %d notifications to client %d token %s were all Non-confirmable" % (
                            k, ev, max_non + 1, c, o["tok"])))
            elif o["tag"] == "n" and o["code"] >= 128:
                # error response in place of a notification: the observer is gone (resource deletion handled above)
                if key in reg:
                    for r in list(reg[key].keys()):
                        if errflag.get(r):
                            deregister(c, o["tok"], r, "error response %d" % o["code"])
            elif o["tag"] == "p":
                if o["obs"] is not None and o["obs"] >= MOD:
                    viol.append(("observe-range", "event #%d (%s): response to client %d token %s carries Observe=%d, not a 24-bit value" % (
                        k, ev, c, o["tok"], o["obs"])))
                if op == "reg" and o["code"] == 69 and o["obs"] is not None:
                    c_, r, t, q = int(f[1]), int(f[2]), int(f[3]), target_of(f)
                    fresh = key not in reg or r not in reg[key]
                    if fresh:
                        # same cache key under another token is replaced, never duplicated
                        for (c2, tok2), d in list(reg.items()):
                            if c2 == c and tok2 != o["tok"] and r in d and d[r]["q"] == q and (c2, tok2) not in amb:
                                deregister(c2, tok2, r, "re-registration with token %s" % o["tok"])
                        reg.setdefault(key, {})[r] = {"q": q}
                        epoch[key] = k
                        dead.pop(key, None)
                        kinds.pop(key, None)
                    elif reg[key][r]["q"] != q:
                        amb.add(key)                     # token reused with another query
                    if len(reg[key]) > 1:
                        amb.add(key)                     # one token on two resources
                    if key in amb:
                        last.pop(key, None)
                        continue
                    if key in last and last[key][3] != r:
                        last.pop(key)                    # the token now names an observation of another resource
                    if key in last:
                        v0, was_reg, k0, _ = last[key]
                        if not (serial_gt(o["obs"], v0) or o["obs"] == v0):
                            viol.append(("not-increasing", "event #%d (%s): registration response to client %d token %s carries Observe=%d, less than "
                                         "%d sent at event #%d" % (k, ev, c, o["tok"], o["obs"], v0, k0)))
                        elif o["obs"] == v0 and changed_between(r, k0, k):
                            viol.append(("reg-equal", "event #%d (%s): registration response to client %d token %s repeats Observe=%d of the "
                                         "notification of event #%d" % (k, ev, c, o["tok"], o["obs"], k0)))
                    last[key] = (o["obs"], True, k, r)
                    if bw and r in bres:
                        if o["pver"] != nver.get(r, 0) % VER_MOD:
                            viol.append(("stale-body", "event #%d (%s): registration response to client %d token %s carries body version %s, r%d is at "
                                         "version %d" % (k, ev, c, o["tok"], o["pver"], r, nver.get(r, 0) % VER_MOD)))
                        lastver[key] = (o["pver"], k)
                elif op == "reg" and o["code"] >= 128:
                    c_, r, q = int(f[1]), int(f[2]), target_of(f)
                    was = key in reg and r in reg[key]
                    deregister(c, o["tok"], r, "error response to the registration")
                    for (c2, tok2), d in list(reg.items()):      # the same observation under its previous token
                        if not was and c2 == c and r in d and d[r]["q"] == q and (c2, tok2) not in amb:
                            deregister(c2, tok2, r, "error response to the re-registration with token %s" % o["tok"])
                elif op == "can" and o["code"] >= 128:
                    pass
        for key in st.pop("_giveup", []):
            if key in reg:
                for r in list(reg[key].keys()):
                    deregister(key[0], key[1], r, "failed Confirmable notification")

        # ---- ambiguous keys follow the server's table
        for key in list(amb):
            present = [r for r, rr in st["R"].items() if rr and any((x["c"], x["tok"]) == key for x in rr["subs"])]
            if present:
                reg[key] = {r: {"q": None} for r in present}
            else:
                reg.pop(key, None); amb.discard(key); last.pop(key, None); kinds.pop(key, None); dead.pop(key, None); sup.pop(key, None)

        # ---- invariants visible in the server's own tables
        for r, rr in st["R"].items():
            if rr is None:
                continue
            seen = set()
            for s in rr["subs"]:
                if (s["c"], s["tok"]) in seen:
                    viol.append(("duplicate-entry", "event #%d (%s): resource r%d lists client %d token %s twice" % (k, ev, r, s["c"], s["tok"])))
                seen.add((s["c"], s["tok"]))
                if st["S"].get(s["c"]) is None:
                    viol.append(("session-gone", "event #%d (%s): resource r%d lists an observer of client %d but the server holds no session for it" % (k, ev, r, s["c"])))
                elif st["S"][s["c"]]["ref"] < 1:
                    viol.append(("session-unreferenced", "event #%d (%s): client %d observes r%d but its session has ref=0" % (k, ev, s["c"], r)))
            # everything the property calls registered must be in the table, and vice versa
            for (c2, tok2), d in reg.items():
                if r in d and (c2, tok2) not in seen and (c2, tok2) not in amb:
                    viol.append(("entry-missing", "event #%d (%s): client %d token %s is registered on r%d but not in the server's list" % (k, ev, c2, tok2, r)))
            for (c2, tok2) in seen:
                if (c2, tok2) in amb:
                    continue
                if (c2, tok2) not in reg or r not in reg[(c2, tok2)]:
                    cause = dead.get((c2, tok2))
                    if cause and cause[0] == "superseded-rst":
                        continue
                    viol.append(("entry-stale", "event #%d (%s): r%d still lists client %d token %s%s" % (
                        k, ev, r, c2, tok2, " after %s (event #%d)" % cause if cause else " which never registered")))
        prev = st

    # ---- the last state is eventually notified: histories that end with the fair tail (marker `io io io` as last 3 events)
    if len(evs) >= 3 and evs[-3:] == ["io", "io", "io"] and prev is not None:
        for (c, tok), d in reg.items():
            if len(d) != 1 or (c, tok) in amb:
                continue
            r = next(iter(d))
            rr = prev["R"].get(r)
            s = prev["S"].get(c)
            # excused only while a Confirmable to this client is really outstanding, i.e. sits in the server's retransmission
            # queue.  The session's con_active counter alone is no excuse: the tail has acknowledged everything, so a counter
            # that still says "busy" with nothing in the queue will never be released by anything the client can do, and the
            # observer would wait for ever.
            if rr is None or s is None or any(qn["c"] == c for qn in prev["Q"]):
                continue
            stuck = " (the session's con_active is %d with no Confirmable in the queue: stuck)" % s["con"] if s["con"] else ""
            if not bw:
                if (c, tok) not in last or last[(c, tok)][0] != rr["observe"]:
                    viol.append(("latest-not-notified", "after the fair tail client %d token %s was last told Observe=%s but r%d is at %d%s" % (
                        c, tok, last.get((c, tok), ("nothing",))[0], r, rr["observe"], stuck)))
                continue
            # block-wise line.  A notification may be held back while a block-wise transfer to the same client is in progress,
            # but only for a bounded time after the client's last block request: once nothing with a Block2 option went to
            # the client for BLOCK_WAIT_MS, no Confirmable is outstanding and the I/O loop has run (the three `io`), the FIRST
            # block of a notification carrying the resource's final Observe value -- and, for a block-wise resource, the final
            # body version -- must have been sent: a change signalled during an earlier block-wise notification is not lost.
            if c in t_blk and t_blk[c] + BLOCK_WAIT_MS > prev["t"]:
                continue
            told = last.get((c, tok))
            lv = lastver.get((c, tok))
            want_ver = nver.get(r, 0) % VER_MOD
            if told is None or told[0] != rr["observe"]:
                viol.append(("latest-not-notified-blockwise", "after the fair tail (t=%d, last block-wise datagram to client %d at t=%s, no Confirmable "
                             "outstanding) client %d token %s was last told Observe=%s but r%d is at %d" % (
                                 prev["t"], c, t_blk.get(c), c, tok, told[0] if told else "nothing", r, rr["observe"])))
            elif r in bres and (lv is None or lv[1] != told[2] or lv[0] != want_ver):
                viol.append(("latest-not-notified-blockwise", "after the fair tail client %d token %s holds Observe=%d with body version %s but r%d is at "
                             "version %d" % (c, tok, told[0], lv[0] if lv else None, r, want_ver)))
    return viol


KNOWN_TAGS = {"superseded-rst": "rst_of_superseded_notification_ignored"}
