"""C06 — Confirmable retransmission schedule, single outcome, wait time (DESIGN.md §4 C06, design/C06.md)."""
import os
from vlib import common as C, msglib as L

MANIFEST = {
    "text": "Lean theorems: queue_abs_invariant (every sequence of coap_insert_node / coap_pop_next / coap_remove_from_queue / cancel / "
            "backward coap_adjust_basetime operations: the delta-time send queue represents the sorted multiset of absolute deadlines, "
            "each operation commutes with S), calc_timeout_bounds (+ uint16 wrap witness), wait_le_earliest / wait_le_every_deadline (any "
            "state, all sessions, incl. the 32-bit reduction); retransmit_schedule, single_outcome, no_tx_without_pending, due_fires for "
            "every event sequence of the timer system S.  For the code model M (coap_send/coap_wait_ack, coap_retransmit, due loop of "
            "coap_io_prepare_io_lkd, dispatch, NSTART gate + delay queue), EVERY event sequence that keeps sessions established, any "
            "number of messages and sessions sharing the queue: m_schedule_all (punctual runs: every CON transmission at t0 + (2^k-1)T "
            "of its own coap_send, T the ONE coap_calc_timeout value drawn there, k <= MAX_RETRANSMIT), m_pending_on_schedule, "
            "m_giveup_after_all_retransmissions, m_at_most_max_retransmissions, m_transmissions_exactly (cnt+1 transmissions, each slot "
            "once), m_giveup_exactly_max, m_due_fires, punctual_of_clock, m_single_outcome "
            "(accepted sends = outcome NACKs + ACK completions + queued + delayed), m_never_sent_again; for EVERY event and state "
            "pdu_and_timeout_never_modified (mid/token/type and stored timeout of a node never change).  m_refines_timer_partial: exact "
            "simulation M -> S (same pending list, same observable outputs in order) when CONs are submitted with NSTART room and no "
            "submission/RST races a due retransmission.  M is tied to the compiled code on every run by exact trace equality on a "
            "virtual-time harness (transmissions with timestamps and byte identity, NACKs, con_active, the whole send queue after "
            "every event), incl. every drop subset of the first 10 datagrams.",
    "note": "Trusted: Lean kernel (+ propext, Classical.choice, Quot.sound), harness/sim_core.h + msg.c (--wrap clock/network), the scenario "
            "interpreter Driver/Msg.lean, generators/oracles, the hand transcription M (checked on the cases run only).  M-level theorems: "
            "sessions stay established (no hold/disconnect: session failure is C08's), no-wrap range D7, T > 0.  "
            "M has no PDU bytes: byte identity = constancy of the node fields standing for the PDU (Lean) + byte comparison of every "
            "retransmitted datagram on the real code (T2).  The exact simulation is `_partial` because S's tick fires everything due "
            "before anything else at an instant (same-instant ORDER differs for a delayed message let in by a give-up, or a submission / "
            "RST racing a due retransmission); those runs are covered by the direct M-level theorems.  coap_adjust_basetime forward is an "
            "open finding (adjust_commutes_partial + adjust_forward_witness).  Real-time behaviour of epoll_wait is not modelled.",
    "design_ref": "DESIGN.md §4 C06, design/C06.md",
}
LEAN_MODULES = ["CoapVerif.Props.C06"]
NAMESPACE = "Coap.C06"
REQUIRED_THEOREMS = ["queue_abs_invariant", "insert_commutes", "pop_commutes", "remove_commutes", "cancel_commutes", "enqueue_commutes",
                     "adjust_forward_witness", "calc_timeout_bounds", "calc_timeout_wraps", "qfix_approx", "wait_le_earliest",
                     "retransmit_step", "giveup_step", "due_head_retransmitted", "no_early_retransmit", "base_le_now_invariant",
                     "retransmit_schedule", "single_outcome", "no_tx_without_pending", "queue_empty_all_concluded", "due_fires",
                     "m_solo_giveup", "m_solo_acked", "m_solo_rst",
                     "wait_le_every_deadline", "m_schedule_all", "m_pending_on_schedule", "m_due_fires", "m_single_outcome",
                     "m_never_sent_again", "m_pdu_and_timeout_fixed", "m_giveup_after_all_retransmissions",
                     "m_at_most_max_retransmissions", "sleep_returned_wait_ok", "punctual_of_clock",
                     "pdu_and_timeout_never_modified", "pdu_and_timeout_never_modified_step", "sim_gate_order_witness",
                     "m_transmissions_exactly", "m_giveup_exactly_max", "m_wait_exact_and_positive",
                     "m_refines_timer_partial", "m_refines_timer_from_partial", "m_schedule_via_timer_partial",
                     "m_single_outcome_via_timer_partial"]
RULE = ("scenario lines for harness/msg.c (one real client context, 1-3 UDP sessions sharing the send queue, virtual clock, "
        "scripted peer): every drop subset of the first 10 datagrams of an exchange (5 transmissions x 5 ACKs) for several "
        "parameter sets and ACK delays placed just before / at / after each timer deadline; random multi-message, "
        "multi-session scenarios with lost / delayed / duplicated ACKs and RSTs, stray ACK/RST/NON/invalid-code datagrams, "
        "cancel-by-token, session failure, explicit late I/O steps; raw queue-operation sequences on real coap_queue_t "
        "nodes (sq); coap_calc_timeout over random and boundary parameters incl. the uint16 wrapping range (tmo); "
        "non-trivial = distinct line on which at least one Confirmable was transmitted / one queue op changed the queue")
TRUSTED_BASE = ["Lean 4.33 kernel; axioms allowed: propext, Classical.choice, Quot.sound (audited per theorem each run)",
                "harness/sim_core.h + harness/msg.c (virtual clock and scripted network by --wrap of coap_ticks / coap_socket_send / "
                "coap_socket_recv), the scenario interpreter in Driver/Msg.lean, generators and oracles in vlib/msglib.py",
                "M (Model/SendQueue.lean, Model/MsgLayer.lean) is a hand transcription of the anchored C functions; checked "
                "against the compiled code by exact trace equality (transmissions with virtual timestamps, NACKs, con_active, "
                "delay-queue lengths, the whole send queue with absolute deadlines after every event) on the cases run only"]
ASSUMPTIONS = ["D7: ping_timeout = 0; transmission parameters where Q()'s uint16_t cast does not wrap and T << MAX_RETRANSMIT fits "
               "32 bits (witness calc_timeout_wraps documents the other range); M-level theorems: T > 0, MAX_RETRANSMIT < 256, "
               "T << MAX_RETRANSMIT < 2^64",
               "retransmit_schedule / m_schedule_all: the application runs the I/O loop no later than the wait the library returned "
               "(`Punctual`: no I/O step, submission or arrival after the clock was moved past a pending deadline)",
               "M-level theorems (section 7): every event except hold/disconnect, on sessions that are established with an open "
               "socket, NSTART >= 1, nothing delayed initially; pdu_and_timeout_never_modified: no assumption",
               "UDP client sessions, block mode off, no OSCORE, unicast; real-time behaviour of epoll_wait is not modelled "
               "(the harness is the event loop)",
               "compiled Lean definitions agree with the kernel's reading of them"]
SPEC_DECISIONS = ["D7 non-wrapping parameter range", "D13 adjust: future deadlines never move, past ones become due now",
                  "D14 an outcome NACK carries the sent PDU; sent = NULL reports a stray RST"]


def harness(ctx):
    return L.harness(ctx)


def exhaustive(ctx, psets):
    """every subset of {CON0,ACK0,…,CON4,ACK4} dropped; ACK delay classes aimed at the timers"""
    out = []
    for pi, p in enumerate(psets):
        for mask in range(1024):
            r = (mask * 37 + pi * 101) % 256
            T = L.py_calc_timeout(p[0], p[1], p[2], p[3], r)
            fates = []
            for k in range(5):
                if (mask >> (2 * k)) & 1 or (mask >> (2 * k + 1)) & 1:
                    fates.append("d")
                else:
                    cls = (mask // 7 + k + pi) % 6
                    d = [1, 50, max(0, T * 2 ** k - 1), T * 2 ** k, T * 2 ** k + 1, T // 2][cls]
                    fates.append("a%d" % d)
            out.append("msg %s %s s:0:c:%d:%d g:400" % (L.sess_word(p, 1), ",".join(fates), 4000 + mask, r))
    return out


def gen_sq(rng):
    n = rng.randint(1, 14)
    ops, base, live = [], 1000, []
    for _ in range(n):
        c = rng.random()
        if c < 0.5 or not live:
            s, mid = rng.randrange(3), rng.randrange(1, 9)
            ops.append("i:%d:%d:%d" % (rng.choice([0, 1, 5, 10, 10, 20, 30, 100, 1000]), s, mid))
            live.append((s, mid))
        elif c < 0.62:
            ops.append("p")
        elif c < 0.78:
            s, mid = rng.choice(live) if rng.random() < 0.8 else (rng.randrange(3), rng.randrange(1, 9))
            ops.append("r:%d:%d" % (s, mid))
        elif c < 0.86:
            if rng.random() < 0.25:
                base = base + rng.choice([1, 5, 10, 15, 100, 5000])     # forward: open finding unless nothing survives
            else:
                base = max(0, base - rng.choice([0, 1, 10, 500]))       # backward (or no) move of the reference time
            ops.append("j:%d" % base)
        elif c < 0.93:
            ops.append("c:%d" % rng.randrange(3))
        else:
            s, mid = rng.choice(live)
            ops.append("k:%d:%d" % (s, mid))
    return "sq " + " ".join(ops)


def gen_tmo(rng):
    c = rng.random()
    if c < 0.7:
        p = L.rand_params(rng)
        return "tmo %d %d %d %d %d" % (p[0], p[1], p[2], p[3], rng.choice([0, 1, 127, 128, 254, 255, rng.randrange(256)]))
    if c < 0.9:
        return "tmo %d %d %d %d %d" % (rng.choice([1, 60, 1000, 1023, 1024, 1025, 65535, rng.randrange(65536)]), rng.randrange(1000),
                                       rng.choice([1, 2, 100, 1023, 1024, 65535, rng.randrange(65536)]), rng.randrange(1000), rng.randrange(256))
    return "tmo %d %d %d %d %d" % (rng.randrange(65536), rng.randrange(65536), rng.randrange(65536), rng.randrange(65536), rng.randrange(256))


def generate(ctx, escalate=False):
    rng = ctx.rng
    th = ctx.thorough()
    out = exhaustive(ctx, L.PARAM_SETS[:5] if th else L.PARAM_SETS[:2])
    n = 200000 if th else 6000
    if escalate:
        n *= 3
    out += [L.gen_scenario(rng, "c06") for _ in range(n)]
    out += [gen_sq(rng) for _ in range(n)]
    out += [gen_tmo(rng) for _ in range(n)]
    ctx.cov["exhaustive"] = "every drop subset of the first 10 datagrams (1024) x %d parameter sets" % (5 if th else 2)
    return out


def abs_of(q):
    base, rest = q.split("/")
    t, out = int(base), []
    if rest != "-":
        for x in rest.split(","):
            s, mid, d = x.split(".")
            t += int(d)
            out.append("%s.%s.%d" % (s, mid, t))
    return ",".join(out) if out else "-"


def forward_adjust(line):
    base = 1000
    for op in line.split()[1:]:
        if op.startswith("j:"):
            now = int(op[2:])
            if now > base:
                return True
            base = now
    return False


def judge(ctx, c):
    op = c["input"].split()[0]
    i, m, s = c["impl"], c["model"], c["spec"]
    if op == "msg":
        return L.judge_msg(ctx, c, L.oracle_c06)
    if i is not None and i.startswith("crash"):
        return ("spec", "the implementation dies: " + i[:200])
    if op == "sq" and i and m and i != "bad-op":
        if abs_of(i.split()[-1]) != s:
            return ("spec", "absolute deadlines after the operations are %s, the specification says %s" % (abs_of(i.split()[-1]), s))
    if i != m:
        return ("tie", "implementation `%s`, model `%s`" % ((i or "")[:100], (m or "")[:100]))
    return None


def known(ctx, c):
    # coap_adjust_basetime() moved forward past at least one surviving node: I = M (transcribed as is), both ≠ S
    if c["input"].startswith("sq ") and c["impl"] == c["model"] and forward_adjust(c["input"]):
        return "adjust_basetime_forward"
    return None


def nontrivial(c):
    i = c["impl"] or ""
    return " tx@" in " " + i or (c["input"].startswith("sq") and "." in i) or c["input"].startswith("tmo")


def classify(c):
    w = c["input"].split()
    if w[0] != "msg":
        return w[0]
    i = c["impl"] or ""
    k = "msg:%dsess" % (w[1].count(",") + 1)
    if "nack@" in i and ":retries:" in i:
        k += ":giveup"
    if ":rst:" in i:
        k += ":rst"
    return k


def search(ctx, tie_breaks, proof):
    rng = ctx.rng
    out = []
    for c in tie_breaks[:20]:
        w = c["input"].split()
        if w[0] != "msg":
            continue
        for _ in range(100):
            evs = list(w[3:])
            if len(evs) > 1 and rng.random() < 0.7:
                del evs[rng.randrange(len(evs) - 1)]
            out.append(" ".join(w[:3] + evs))
    out += [L.gen_scenario(rng, "c06") for _ in range(3000)]
    return out


def shrink(ctx, case):
    if not case["input"].startswith("msg "):
        return case
    import props.C06 as me
    return L.shrink_msg(ctx, me, case, judge)
