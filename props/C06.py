"""C06 — Confirmable retransmission schedule, single outcome, wait time (DESIGN.md §4 C06, design/C06.md)."""
import os
import re
from vlib import common as C, msglib as L

MANIFEST = {
    "text": "Lean theorems: queue_abs_invariant (every sequence of coap_insert_node / coap_pop_next / coap_remove_from_queue / cancel / "
            "backward coap_adjust_basetime operations: the delta-time send queue represents the sorted multiset of absolute deadlines, "
            "each operation commutes with S), calc_timeout_bounds (+ uint16 wrap witness), wait_le_earliest / wait_le_every_deadline (any "
            "state, all sessions, incl. the 32-bit reduction); retransmit_schedule, single_outcome, no_tx_without_pending, due_fires for "
            "every event sequence of the timer system S.  For the code model M (coap_send/coap_wait_ack, coap_retransmit, due loop of "
            "coap_io_prepare_io_lkd, dispatch, NSTART gate + delay queue), EVERY event sequence that keeps sessions established, any "
            "number of messages and sessions sharing the queue: m_schedule_all (punctual runs: every CON transmission at t0 + (2^k-1)T "
            "of its own coap_send, T the ONE coap_calc_timeout value drawn there, k <= MAX_RETRANSMIT), m_pending_on_schedule, "
            "m_giveup_after_all_retransmissions, m_at_most_max_retransmissions, m_transmissions_exactly (cnt+1 transmissions, each slot "
            "once), m_giveup_exactly_max, m_due_fires, punctual_of_clock, m_single_outcome "
            "(accepted sends = outcome NACKs + ACK completions + queued + delayed), m_never_sent_again; for EVERY event and state "
            "pdu_and_timeout_never_modified (mid/token/type and stored timeout of a node never change); for EVERY event list "
            "m_delayed_has_pending (an established session that still holds a message has a Confirmable pending in the send queue: a "
            "message waiting for an NSTART slot is never stranded).  Socket-write failures (model with a write oracle, "
            "Model/MsgLayerW.lean): w_no_failure_is_m (without failing writes it IS the base model, every event list), "
            "w_failed_retransmission_is_lost_datagram (every state: coap_retransmit with a failing write "
            "leaves queue, con_active and outputs exactly as with a lost datagram), w_run_tracks_m_partial / w_single_outcome_partial / "
            "w_attempts_on_schedule_partial (every event list, every pattern of failing RETRANSMISSION writes: same state as the base "
            "model, so conservation, schedule of the write attempts and give-up after MAX_RETRANSMIT+1 attempts carry over).  "
            "m_refines_timer (round R06, FULL - EVERY event list of the C06 alphabet RunG: setNow / prepare / submit CON with or without "
            "NSTART room / submit NON / rxAck / rxRst / rxBad / rxNon / connect at any instant): simulation M -> S with the delay queue in the invariant and the S events taken in the order the "
            "code processes things (a drained Confirmable is S's `send` when it is really transmitted, one partial tick `tickN now 1` "
            "per iteration of the due loop): same pending list as lists, same transmissions in the same order, same outcome NACKs in "
            "the same order; lifted through it m_schedule_via_timer and m_single_outcome_via_timer (first transmissions = outcome "
            "NACKs + ACK completions + queued); sim_order_witness (a re-used message id: the interleaving of one NACK with the "
            "transmission it unblocks cannot be matched by any translation).  m_refines_timer_partial: the older exact "
            "simulation (full observation list in order) when CONs are submitted with NSTART room and no "
            "submission/RST races a due retransmission.  w_send_refused_nothing_queued / w_refused_send_leaves_no_trace / "
            "w_run_with_refused_send_is_m_without_it / w_single_outcome_refused / w_attempts_on_schedule_refused (the branch the "
            "w_*_partial theorems exclude: a coap_send whose first write fails returns COAP_INVALID_MID, queues nothing, and the "
            "whole later run is the base model's run without that call).  obs_wait_le_every_deadline / "
            "obs_io_wait_le_every_deadline FULL: every run of C11's Observe model keeps the send queue in deadline order with "
            "nothing due after the I/O step (obs_queue_sorted_nothing_due, obs_io_nothing_due: retransmitDue's fuel length+1 "
            "suffices).  M is tied to the compiled code on every run by exact trace equality on a "
            "virtual-time harness (transmissions with timestamps and byte identity, NACKs, con_active, the whole send queue after "
            "every event), incl. every drop subset of the first 10 datagrams and every lost / write-fails pattern of a message's "
            "attempts with a second message waiting for its NSTART slot.  Observation, not theorem (oracle on the implementation's "
            "trace alone): at the end of a run at which the library reports nothing pending and every reply of the peer has been "
            "delivered, every accepted Confirmable - one held back by NSTART included - for which no ACK/RST/response ever arrived "
            "has had a NACK-handler call; attempts whose write failed count as transmissions for schedule and retransmission count.  "
            "Round X06: ack_request_code_is_bad_ack + m_solo_ack_request_code (an ACK that carries the message id but a REQUEST code "
            "0.01-0.31 - ACK branch of coap_dispatch, Msg.rxAckReq - is the model's rxBad event: node removed, slot released, ONE NACK "
            "BAD_RESPONSE; so every whole-run theorem above ranges over such ACKs), tied on the event q:S:MID:CODE, the peer fate q<D> "
            "and a third drop-subset sweep with such ACKs; oracle on the implementation alone: no transmission of a Confirmable "
            "strictly after an ACK (any code) or RST with its message id was delivered.  notify_wait_le_every_deadline (C06 model, "
            "every state, every list of notifications coap_check_notify sends from INSIDE coap_io_prepare_io: the returned wait is "
            "computed after they were queued and does not exceed any pending deadline, theirs included); on C11's SERVER model "
            "(Model/Observe.lean + Model/ObserveWait.lean: the wait incl. the idle-session timers) "
            "obs_wait_le_every_deadline / obs_io_wait_le_every_deadline (every run, no hypothesis; the `_partial` versions with the two "
            "queue hypotheses are kept); `obsw` lines run a REAL server context with "
            "observable resources (harness/observe.c) and compare the value coap_io_prepare_epoll() returns at every io / adv event "
            "with that model exactly; observation (oracle on the implementation alone): that value is never 0 and never beyond the "
            "earliest deadline of the send queue as the call leaves it.  Round R06c, ICMP events (Model/MsgLayerI.lean: event "
            "icmp:<session> = coap_session_disconnected_lkd(COAP_NACK_ICMP_ISSUE) + the I/O step ending coap_io_do_epoll): "
            "icmp_report_changes_nothing_but_the_report (every state: clock, send queue, con_active, delay queues unchanged; ONE "
            "report - first node of the session in the send queue, else lg_crcv, else sent = NULL), icmp_run_is_base_run (EVERY "
            "event list with ICMP events anywhere: ICMP reports and logged waits aside it IS the base model's run with each ICMP "
            "event replaced by an I/O step), hence retransmit_schedule_icmp, giveup_after_all_retransmissions_icmp, "
            "single_outcome_icmp (only TOO_MANY_RETRIES / RST count as outcomes), at_most_max_retransmissions_icmp, "
            "refines_timer_icmp, and C08's con_active_eq_inflight_icmp / held_fifo_exactly_once_icmp; tied on i:S events (the "
            "harness makes recv() fail with ECONNREFUSED) incl. together with failing socket writes.",
    "note": "Trusted: Lean kernel (+ propext, Classical.choice, Quot.sound), harness/sim_core.h + msg.c (--wrap clock/network), the scenario "
            "interpreter Driver/Msg.lean, generators/oracles, the hand transcription M (checked on the cases run only).  M-level theorems: "
            "sessions stay established (no hold/disconnect: session failure is C08's), no-wrap range D7, T > 0.  "
            "M has no PDU bytes: byte identity = constancy of the node fields standing for the PDU (Lean) + byte comparison of every "
            "retransmitted datagram on the real code (T2).  The simulation for every event list (m_refines_timer) compares the list of "
            "transmissions and the list of outcome NACKs, each in order, not their interleaving (the code transmits a delayed message "
            "BEFORE it calls the NACK handler of the message that released the slot); S got one more event for it, `tickN now k` (a "
            "tick observed after k firings; all S-level theorems hold for it).  The older exact simulation (`_partial`, full observation "
            "list) keeps its two scope conditions.  coap_adjust_basetime forward is an "
            "open finding (adjust_commutes_partial + adjust_forward_witness).  Write failures: the whole-run theorems are `_partial` "
            "because they exclude a failing write of a FIRST transmission (coap_send then refuses the message; the drain loop of "
            "coap_session_connected stops - open finding drain_break_strands_delayed, w_drain_break_strands_witness); those runs are "
            "covered by the trace comparison with the write-failure model and by the oracle only; not combined with keepalive / "
            "explicit tokens (ICMP events are: Coap.MsgI.stepWI, trace comparison and oracle, no whole-run theorem).  The lg_crcv "
            "branch of the ICMP report is transcribed with the block-layer record as a parameter; the harness deletes that record "
            "after every delivery, so the differential runs exercise `none` only.  Real-time behaviour of epoll_wait is not modelled.",
    "design_ref": "DESIGN.md §4 C06, design/C06.md",
}
LEAN_MODULES = ["CoapVerif.Props.C06"]
NAMESPACE = "Coap.C06"
REQUIRED_THEOREMS = ["queue_abs_invariant", "insert_commutes", "pop_commutes", "remove_commutes", "cancel_commutes", "enqueue_commutes",
                     "adjust_forward_witness", "calc_timeout_bounds", "calc_timeout_wraps", "qfix_approx", "wait_le_earliest",
                     "retransmit_step", "giveup_step", "due_head_retransmitted", "no_early_retransmit", "base_le_now_invariant",
                     "retransmit_schedule", "single_outcome", "no_tx_without_pending", "queue_empty_all_concluded", "due_fires",
                     "m_solo_giveup", "m_solo_acked", "m_solo_rst",
                     "wait_le_every_deadline", "m_schedule_all", "m_pending_on_schedule", "m_due_fires", "m_single_outcome",
                     "m_never_sent_again", "m_pdu_and_timeout_fixed", "m_giveup_after_all_retransmissions",
                     "m_at_most_max_retransmissions", "sleep_returned_wait_ok", "punctual_of_clock",
                     "pdu_and_timeout_never_modified", "pdu_and_timeout_never_modified_step", "sim_gate_order_witness",
                     "m_transmissions_exactly", "m_giveup_exactly_max", "m_wait_exact_and_positive",
                     "m_refines_timer_partial", "m_refines_timer_from_partial", "m_schedule_via_timer_partial",
                     "m_single_outcome_via_timer_partial",
                     "m_refines_timer", "m_refines_timer_from", "m_schedule_via_timer", "m_single_outcome_via_timer",
                     "sim_order_witness",
                     "m_delayed_has_pending", "w_failed_retransmission_is_lost_datagram", "w_run_tracks_m_partial",
                     "w_single_outcome_partial", "w_attempts_on_schedule_partial", "w_drain_break_strands_witness", "w_no_failure_is_m",
                     "w_send_refused_nothing_queued", "w_refused_send_leaves_no_trace",
                     "w_run_with_refused_send_is_m_without_it", "w_single_outcome_refused", "w_attempts_on_schedule_refused",
                     "ack_request_code_is_bad_ack", "m_solo_ack_request_code", "notify_wait_le_every_deadline",
                     "obs_wait_le_every_deadline_partial", "obs_io_wait_le_every_deadline_partial",
                     "obs_wait_le_every_deadline", "obs_io_wait_le_every_deadline", "obs_io_wait_le_every_deadline_sorted",
                     "obs_io_nothing_due", "obs_queue_sorted_nothing_due", "obs_queue_sorted_step",
                     "icmp_report_changes_nothing_but_the_report", "icmp_report_is_not_an_outcome", "icmp_report_is_x_icmp",
                     "icmp_run_is_base_run", "retransmit_schedule_icmp", "giveup_after_all_retransmissions_icmp",
                     "single_outcome_icmp", "at_most_max_retransmissions_icmp", "refines_timer_icmp",
                     "con_active_eq_inflight_icmp", "held_fifo_exactly_once_icmp"]
RULE = ("scenario lines for harness/msg.c (one real client context, 1-3 UDP sessions sharing the send queue, virtual clock, "
        "scripted peer): every drop subset of the first 10 datagrams of an exchange (5 transmissions x 5 ACKs) for several "
        "parameter sets and ACK delays placed just before / at / after each timer deadline; random multi-message, "
        "multi-session scenarios with lost / delayed / duplicated ACKs and RSTs, stray ACK/RST/NON/invalid-code datagrams, "
        "cancel-by-token, session failure, explicit late I/O steps; socket writes that fail (fate x: coap_socket_send returns -1) "
        "- every lost / write-fails pattern over the attempts of a message x every outcome with a second message waiting for its "
        "NSTART slot, and at random positions of random scenarios; ACKs that carry the message id but a request code 0.01-0.31 "
        "(fate q / event q:) - every drop subset of the first 10 datagrams once more with such ACKs, and mixed into random "
        "scenarios; ICMP errors read from a session's socket (event i:) - just before / at / after every deadline of a message, "
        "once or twice, with a second message waiting for its NSTART slot, between punctual I/O steps, and at random points of "
        "random scenarios (a third of them with failing socket writes); `obsw` lines for harness/observe.c: a real SERVER context with 1-3 observable resources (NOTIFY_CON / default "
        "/ NON_ALWAYS), 1-4 real clients, changes followed by the I/O step that sends the notifications from inside "
        "coap_io_prepare_io with an empty or later-armed send queue, ACK / RST / silence, time steps around 2000*2^k and the "
        "idle-session timeout, plus C11's own histories; raw queue-operation sequences on real coap_queue_t "
        "nodes (sq); coap_calc_timeout over random and boundary parameters incl. the uint16 wrapping range (tmo); "
        "non-trivial = distinct line on which at least one Confirmable was transmitted / one queue op changed the queue")
TRUSTED_BASE = ["Lean 4.33 kernel; axioms allowed: propext, Classical.choice, Quot.sound (audited per theorem each run)",
                "harness/sim_core.h + harness/msg.c (virtual clock and scripted network by --wrap of coap_ticks / coap_socket_send / "
                "coap_socket_recv), the scenario interpreter in Driver/Msg.lean, generators and oracles in vlib/msglib.py; for `obsw` "
                "lines harness/observe.c, Driver/Observe.lean + Driver/ObserveWait.lean and C11's model Model/Observe.lean",
                "M (Model/SendQueue.lean, Model/MsgLayer.lean, Model/MsgLayerW.lean, Model/MsgLayerI.lean) is a hand transcription of the anchored C functions; checked "
                "against the compiled code by exact trace equality (transmissions with virtual timestamps, NACKs, con_active, "
                "delay-queue lengths, the whole send queue with absolute deadlines after every event) on the cases run only"]
ASSUMPTIONS = ["D7: ping_timeout = 0; transmission parameters where Q()'s uint16_t cast does not wrap and T << MAX_RETRANSMIT fits "
               "32 bits (witness calc_timeout_wraps documents the other range); M-level theorems: T > 0, MAX_RETRANSMIT < 256, "
               "T << MAX_RETRANSMIT < 2^64",
               "retransmit_schedule / m_schedule_all: the application runs the I/O loop no later than the wait the library returned "
               "(`Punctual`: no I/O step, submission or arrival after the clock was moved past a pending deadline)",
               "M-level theorems (section 7): every event except hold/disconnect, on sessions that are established with an open "
               "socket, NSTART >= 1, nothing delayed initially; pdu_and_timeout_never_modified: no assumption",
               "w_*_partial: any socket writes of retransmissions may fail, no write of a first transmission does (ghost flag "
               "`dev` of the write-failure model stays false); w_*_refused: exactly one first write fails, inside coap_send (the "
               "drain-loop break is the open finding drain_break_strands_delayed)",
               "m_refines_timer / m_schedule_via_timer / m_single_outcome_via_timer: events setNow (monotone), prepare, submit of a "
               "Confirmable (T > 0, D7) or of a NON, rxAck, rxRst, rxBad, rxNon, connect (= RunG, every event but hold / disconnect) - any "
               "order, any instant; sessions established (SessOk)",
               "UDP client sessions, block mode off, no OSCORE, unicast; real-time behaviour of epoll_wait is not modelled "
               "(the harness is the event loop)",
               "compiled Lean definitions agree with the kernel's reading of them"]
SPEC_DECISIONS = ["D7 non-wrapping parameter range", "D13 adjust: future deadlines never move, past ones become due now",
                  "D14 an outcome NACK carries the sent PDU; sent = NULL reports a stray RST"]


def harness(ctx):
    return L.harness(ctx)


def exhaustive(ctx, psets):
    """every subset of {CON0,ACK0,…,CON4,ACK4} dropped; ACK delay classes aimed at the timers"""
    out = []
    for pi, p in enumerate(psets):
        for mask in range(1024):
            r = (mask * 37 + pi * 101) % 256
            T = L.py_calc_timeout(p[0], p[1], p[2], p[3], r)
            fates = []
            for k in range(5):
                if (mask >> (2 * k)) & 1 or (mask >> (2 * k + 1)) & 1:
                    fates.append("d")
                else:
                    cls = (mask // 7 + k + pi) % 6
                    d = [1, 50, max(0, T * 2 ** k - 1), T * 2 ** k, T * 2 ** k + 1, T // 2][cls]
                    fates.append("a%d" % d)
            out.append("msg %s %s s:0:c:%d:%d g:400" % (L.sess_word(p, 1), ",".join(fates), 4000 + mask, r))
    return out


def exhaustive_wf(ctx, psets):
    """socket-write failures, swept: ONE session with NSTART 1, message A and message B behind it in the delay queue.
    Every pattern of {lost on the wire, write fails} over A's write attempts up to the attempt whose reply (ACK or RST, or
    none at all: TOO_MANY_RETRIES) ends A; then B's attempts: all lost / k-th write fails / ACKed.  So a failing write
    meets the first transmission in coap_send(), every retransmission, the LAST retransmission before the give-up, and
    the first transmission out of the delay queue - each followed by every kind of outcome of the message in front."""
    out = []
    for pi, p in enumerate(psets):
        mx = p[4]
        for j in range(mx + 2):                       # A's attempt number j gets the reply (j = mx+1: never)
            for mask in range(2 ** min(j, mx + 1)):
                pre = ["x" if (mask >> k) & 1 else "d" for k in range(min(j, mx + 1))]
                ends = [[]] if j == mx + 1 else [["a%d" % d] for d in (1, 700)] + [["r40"]]
                for end in ends:
                    for bi, b in enumerate((["d"] * (mx + 1), ["x"] + ["d"] * mx, ["d", "x", "a9"], ["d"] * mx + ["x"])):
                        r = (mask * 29 + j * 7 + pi * 101 + bi * 53) % 256
                        out.append("msg %s %s s:0:c:%d:%d s:0:c:%d:%d g:400" % (
                            L.sess_word(p, 1), ",".join(pre + end + b), 7000 + j, r, 7100 + j, (r * 3) % 256))
    return out


def gen_wf(rng):
    """a random scenario of the c06 flavour in which some socket writes fail (fate `x`): anywhere among the fates, and
    aimed at the attempts beyond the scripted ones (which would otherwise all be plain losses)"""
    w = L.gen_scenario(rng, "c06").split()
    fates = [] if w[2] == "-" else w[2].split(",")
    nmsg = sum(1 for e in w[3:] if e.startswith("s:"))
    for _ in range(rng.choice([1, 1, 2, 3, 5])):
        pos = rng.randrange(0, max(len(fates), rng.choice([1, 2, 3, 5]) * nmsg) + 1)
        while len(fates) < pos:
            fates.append(rng.choice(["d", "d", "d", "a50", "r50"]))
        if pos < len(fates) and rng.random() < 0.5:
            fates[pos] = "x"
        else:
            fates.insert(pos, "x")
    return " ".join(w[:2] + [",".join(fates)] + w[3:])


def exhaustive_q(ctx, psets):
    """the drop-subset sweep once more with the peer's ACK carrying a REQUEST code (fate q: the 4 bytes 6x 0y <mid>, y = 1..31):
    "until an ACK … carrying its message id arrives" - whatever else the ACK carries.  Every subset of
    {CON0,ACK0,…,CON4,ACK4} dropped, the surviving ACKs aimed just before / at / after each timer deadline."""
    out = []
    for pi, p in enumerate(psets):
        for mask in range(1024):
            r = (mask * 41 + pi * 59) % 256
            T = L.py_calc_timeout(p[0], p[1], p[2], p[3], r)
            fates = []
            for k in range(5):
                if (mask >> (2 * k)) & 1 or (mask >> (2 * k + 1)) & 1:
                    fates.append("d")
                else:
                    cls = (mask // 5 + k + pi) % 6
                    d = [1, 50, max(0, T * 2 ** k - 1), T * 2 ** k, T * 2 ** k + 1, T // 2][cls]
                    fates.append("q%d" % d)
            out.append("msg %s %s s:0:c:%d:%d g:400" % (L.sess_word(p, 1), ",".join(fates), 5000 + mask, r))
    return out


REQ_CODES = [1, 1, 2, 3, 4, 5, 6, 7, 8, 16, 30, 31]


def exhaustive_icmp(ctx, psets):
    """ICMP errors swept over the life of a message: ONE session, message A (and, every other line, message B behind it in the
    delay queue, NSTART 1); an ICMP error is read just before / at / just after every deadline of A (the I/O step of the event
    itself then retransmits A or gives it up and lets B in), once or twice, A ending by ACK / RST / TOO_MANY_RETRIES; and right
    after coap_send() / after every retransmission with the I/O loop punctual (g:K i:0 …), so that the doubling rule is judged."""
    out = []
    for pi, p in enumerate(psets):
        mx = p[4]
        for k in range(mx + 1):
            for off in (-1, 0, 1):
                for ei, end in enumerate(([], ["a50"], ["r50"], ["a%d" % 10 ** 6])):
                    for two in (0, 1):
                        r = (k * 31 + (off + 1) * 7 + ei * 13 + pi * 101 + two * 5) % 256
                        T = L.py_calc_timeout(p[0], p[1], p[2], p[3], r)
                        D = max(0, T * (2 ** (k + 1) - 1) + off)
                        fates = ["d"] * (k + 1) + end
                        evs = ["s:0:c:%d:%d" % (6000 + k, r)] + (["s:0:c:%d:%d" % (6100 + k, (r * 3) % 256)] if (k + ei + two) % 2 else [])
                        evs += ["t:%d" % D, "i:0"] + (["i:0"] if two else []) + ["g:400"]
                        out.append("msg %s %s %s" % (L.sess_word(p, 1), ",".join(fates) if fates else "-", " ".join(evs)))
        for k in range(mx + 2):
            r = (k * 17 + pi * 29) % 256
            out.append("msg %s - s:0:c:%d:%d s:0:c:%d:%d i:0 g:%d i:0 g:1 i:0 g:400 i:0" % (
                L.sess_word(p, 1), 6200 + k, r, 6300 + k, 255 - r, k))
    return out


def gen_ka(rng):
    """keepalive (k:SECS, extended model): the library's own empty Confirmable ("ping") takes the NSTART slot of a silent session;
    the peer answers it with a RST (the pong), an ACK, late, or not at all; THEN the application submits Confirmables, which must
    be transmitted (at once or when the ping is concluded) and end in one outcome.  Half of the lines are the c08 generator's."""
    if rng.random() < 0.5:
        return L.gen_scenario_x(rng, "ka")
    p = rng.choice(L.PARAM_SETS)
    K = rng.randint(1, max(1, p[0]))
    nstart = rng.choice([1, 1, 1, 2])
    pong = rng.choice(["r0", "r1", "r50", "r400", "a50", "a1", "d", "R50+60", "r%d" % (K * 1000)])
    fates = [pong] + [rng.choice(["a50", "a1", "d", "r50", "a400"]) for _ in range(rng.randint(0, 6))]
    evs = ["k:%d" % K, "t:%d" % rng.choice([K * 1000, K * 1000, K * 1000 + 1, 2 * K * 1000])]
    evs += rng.choice([[], ["t:%d" % rng.choice([0, 1, 50, 51, 400, 1000])], ["n"], ["g:2"]])
    mid = rng.choice([100, 30000, 65000])
    for j in range(rng.randint(1, 3)):
        evs.append("s:0:c:%d:%d" % (mid + j, rng.randrange(256)))
        if rng.random() < 0.4:
            evs.append(rng.choice(["n", "t:%d" % rng.choice([1, 50, 400, K * 1000]), "g:2"]))
    if rng.random() < 0.3:
        evs.append("k:0")
    evs.append("g:%d" % rng.choice([10, 25, 40]))
    return "msg %s %s %s" % (L.sess_word(p, nstart), ",".join(fates), " ".join(evs))


def gen_icmp(rng, wf=False):
    """a random scenario of the c06 flavour (optionally with failing socket writes, fate `x`) in which ICMP errors are read from
    the sockets: right after a coap_send(), after a time step, between two punctual I/O steps (g:K), at the very end"""
    w = (gen_wf(rng) if wf else L.gen_scenario(rng, "c06")).split()
    evs = w[3:]
    ns = w[1].count(",") + 1
    for _ in range(rng.choice([1, 1, 2, 3, 4])):
        pos = rng.randint(1, len(evs))
        ins = ["i:%d" % rng.randrange(ns)]
        c = rng.random()
        if c < 0.3:
            ins = ["g:%d" % rng.choice([1, 1, 2, 3, 5])] + ins
        elif c < 0.5 and rng.random() < 0.5:
            ins = ["t:%d" % rng.choice(L.DELAYS)] + ins
        evs[pos:pos] = ins
    if not evs[-1].startswith("g:"):
        evs.append("g:3000")
    return " ".join(w[:3] + evs)


def gen_q(rng):
    """a random scenario of the c06 flavour in which some of the peer's ACKs (fates) and some of the stray / matching ACK
    events carry a request code 0.01 … 0.31 instead of 0.00"""
    w = L.gen_scenario(rng, "c06").split()
    fates = [] if w[2] == "-" else w[2].split(",")
    share = rng.choice([0.3, 0.6, 1.0])
    hit = False
    for k, f in enumerate(fates):
        if f[0] in "aA" and rng.random() < share:
            fates[k] = ("q" if f[0] == "a" else "Q") + f[1:]
            hit = True
    evs = w[3:]
    sent = [(e.split(":")[1], e.split(":")[3]) for e in evs if e.startswith("s:") and e.split(":")[2] == "c"]
    for k, e in enumerate(evs):
        f = e.split(":")
        if f[0] in ("a", "b") and rng.random() < share:
            evs[k] = "q:%s:%s:%d" % (f[1], f[2], rng.choice(REQ_CODES))
            hit = True
    if (not hit or rng.random() < 0.3) and sent:
        # an ACK with a request code for a message that is (or was) outstanding, at a random later point of the scenario
        s, mid = rng.choice(sent)
        first = next(k for k, e in enumerate(evs) if e.startswith("s:%s:c:%s:" % (s, mid)))
        pos = rng.randint(first + 1, len(evs))
        ins = ["q:%s:%s:%d" % (s, mid, rng.choice(REQ_CODES))]
        if rng.random() < 0.5:
            ins = ["t:%d" % rng.choice([0, 1, 100, 1999, 2000, 2001, 3000, 5000])] + ins
        evs[pos:pos] = ins
        if not evs[-1].startswith("g:"):
            evs.append("g:3000")
    return " ".join(w[:2] + [",".join(fates) if fates else "-"] + evs)


# ---------------------------------------------------------------- SERVER contexts: the wait when a Confirmable is sent from
# inside coap_io_prepare_io (round X06, seed C06-12).  `obsw` lines run on C11's harness (harness/observe.c: a real server
# context with observable resources, real client contexts, virtual clock) and are replayed through C11's model
# (Model/Observe.lean) + Model/ObserveWait.lean (the returned wait); the state after every event has one more field, W<ms>.
def _p11():
    import props.C11 as P11
    return P11


HARNESS_FOR_OP = {"obsw": lambda ctx: _p11().harness(ctx)}
OBSW_ADV = [0, 1, 100, 500, 1000, 1999, 2000, 2001, 3999, 4000, 4001, 6000, 8000, 14000, 16000, 30000, 32000, 62000]


def gen_obsw(rng):
    """a server with 1-3 observable resources - mostly NOTIFY_CON, some default (every 6th notification Confirmable) - and
    1-4 clients.  Registrations, then rounds of: the application changes resources, the I/O loop runs (the notifications go
    out from INSIDE coap_io_prepare_io, with the send queue empty or holding only later deadlines) and returns its wait; the
    clients acknowledge / reset some of them or stay silent; time advances by amounts around the retransmission deadlines
    (T = 2000·2^k) and the idle-session timeout."""
    st = rng.choice([5, 20, 30, 300])
    nres = rng.choice([1, 1, 2, 3])
    ncli = rng.choice([1, 1, 2, 3, 4])
    modes = [rng.choice("ccccdda") for _ in range(nres)]
    rs = ",".join("%s%d" % (m, rng.choice([0, 1, 7, 100, 0xFFFFFE])) for m in modes)
    mids = [rng.randrange(0, 65536) for _ in range(ncli)]
    evs, obs = [], []
    for c in range(ncli):
        for _ in range(rng.choice([1, 1, 1, 2])):
            r = rng.randrange(nres)
            mids[c] = (mids[c] + 1) % 65536
            evs.append("reg:%d:%d:%d:0:%s:%d" % (c, r, rng.choice([1, 2, 3]), rng.choice("CCN"), mids[c]))
            obs.append((c, r))
    if rng.random() < 0.3:
        evs.append("adv:%d" % rng.choice(OBSW_ADV))
    for _ in range(rng.choice([1, 2, 3, 4, 6])):
        for r in set(o[1] for o in obs if rng.random() < 0.7) or {obs[0][1]}:
            evs += ["chg:%d" % r] * rng.choice([1, 1, 1, 2])
        evs.append(rng.choice(["io", "io", "adv:%d" % rng.choice(OBSW_ADV)]))
        if rng.random() < 0.25:          # a default resource sends a Confirmable every 6th time: run up to it
            for _ in range(rng.choice([4, 5, 6])):
                evs += ["chg:%d" % rng.choice(obs)[1], "io"]
        for c in range(ncli):
            x = rng.random()
            if x < 0.35:
                evs.append("ack:%d:%d" % (c, 1000 + rng.choice([0, 0, 0, 1])))
            elif x < 0.42:
                evs.append("rst:%d:%d" % (c, 1000))
            elif x < 0.45:
                evs.append("lost:%d" % c)
        x = rng.random()
        if x < 0.35:
            evs += ["adv:2000", "adv:4000", "adv:8000", "adv:16000", "adv:32000", "adv:1"][:rng.choice([1, 2, 3, 6])]
        elif x < 0.75:
            evs += ["adv:%d" % rng.choice(OBSW_ADV) for _ in range(rng.choice([1, 1, 2, 3]))]
        if rng.random() < 0.3:
            evs.append("io")
    return "obsw st=%d R=%s C=%d %s" % (st, rs, ncli, " ".join(evs))


def gen_obsw_borrowed(rng):
    """C11's own histories (all its event kinds: cancellations, error responses, deleted resources, shared tokens) as `obsw`"""
    P11 = _p11()
    line = P11.gen_interference_history(rng) if rng.random() < 0.3 else P11.gen_history(rng, rng.choice([8, 15, 25, 40]))
    return "obsw" + line[3:]


OBSW_SEG = re.compile(r"t=(\d+) .*Q\[([^\]]*)\] W(\d+|-)$")


def oracle_obsw(itext):
    """the property's last clause on the implementation's trace alone: at every io / adv event the value
    coap_io_prepare_epoll() returned must not exceed the time to the earliest deadline in the send queue as it is when the
    call returns, and must not be 0 ("nothing pending") while a retransmission is pending."""
    for k, seg in enumerate(itext.split(" | ")):
        m = OBSW_SEG.search(seg.strip())
        if not m or m.group(3) == "-" or not m.group(2):
            continue
        now, w = int(m.group(1)), int(m.group(3))
        dues = [int(x.split(".")[2]) for x in m.group(2).split(",")]
        e = min(dues) - now
        if e > 0 and (w == 0 or w > e):
            return ("event #%d: coap_io_prepare_epoll() returns a wait of %d ms at t=%d%s but the earliest retransmission deadline "
                    "in the send queue is %d ms away (t=%d): the reported wait exceeds the time to the earliest pending deadline"
                    % (k, w, now, " (= nothing pending)" if w == 0 else "", e, min(dues)))
    return None


def judge_obsw(ctx, c):
    i, m = c["impl"], c["model"]
    if i is None:
        return ("tie", "missing output")
    if i.startswith("crash"):
        return ("spec", "the server process dies: " + i[:300])
    if i == "bad-op" or m == "bad-op":
        return None if i == m else ("tie", "implementation `%s`, model `%s`" % (i[:80], (m or "")[:80]))
    P11 = _p11()
    it = P11.strip_client(i)
    why = oracle_obsw(it)
    if why:
        return ("spec", why)
    it = P11.abstract_error_code(c["input"], it)      # M knows only THAT the handler answers with an error (see props/C11.py)
    if m is None or it != m:
        return ("tie", P11.first_diff(it, m or ""))
    return None


def gen_sq(rng):
    n = rng.randint(1, 14)
    ops, base, live = [], 1000, []
    for _ in range(n):
        c = rng.random()
        if c < 0.5 or not live:
            s, mid = rng.randrange(3), rng.randrange(1, 9)
            ops.append("i:%d:%d:%d" % (rng.choice([0, 1, 5, 10, 10, 20, 30, 100, 1000]), s, mid))
            live.append((s, mid))
        elif c < 0.62:
            ops.append("p")
        elif c < 0.78:
            s, mid = rng.choice(live) if rng.random() < 0.8 else (rng.randrange(3), rng.randrange(1, 9))
            ops.append("r:%d:%d" % (s, mid))
        elif c < 0.86:
            if rng.random() < 0.25:
                base = base + rng.choice([1, 5, 10, 15, 100, 5000])     # forward: open finding unless nothing survives
            else:
                base = max(0, base - rng.choice([0, 1, 10, 500]))       # backward (or no) move of the reference time
            ops.append("j:%d" % base)
        elif c < 0.93:
            ops.append("c:%d" % rng.randrange(3))
        else:
            s, mid = rng.choice(live)
            ops.append("k:%d:%d" % (s, mid))
    return "sq " + " ".join(ops)


def gen_tmo(rng):
    c = rng.random()
    if c < 0.7:
        p = L.rand_params(rng)
        return "tmo %d %d %d %d %d" % (p[0], p[1], p[2], p[3], rng.choice([0, 1, 127, 128, 254, 255, rng.randrange(256)]))
    if c < 0.9:
        return "tmo %d %d %d %d %d" % (rng.choice([1, 60, 1000, 1023, 1024, 1025, 65535, rng.randrange(65536)]), rng.randrange(1000),
                                       rng.choice([1, 2, 100, 1023, 1024, 65535, rng.randrange(65536)]), rng.randrange(1000), rng.randrange(256))
    return "tmo %d %d %d %d %d" % (rng.randrange(65536), rng.randrange(65536), rng.randrange(65536), rng.randrange(65536), rng.randrange(256))


def generate(ctx, escalate=False):
    rng = ctx.rng
    th = ctx.thorough()
    out = exhaustive(ctx, L.PARAM_SETS[:5] if th else L.PARAM_SETS[:2])
    out += exhaustive_wf(ctx, L.PARAM_SETS if th else [L.PARAM_SETS[1], L.PARAM_SETS[2]])
    n = 200000 if th else 6000
    if escalate:
        n *= 3
    out += [L.gen_scenario(rng, "c06") for _ in range(n)]
    out += [gen_wf(rng) for _ in range(n // 2)]
    out += exhaustive_q(ctx, L.PARAM_SETS[:3] if th else [L.PARAM_SETS[0]])
    out += [gen_q(rng) for _ in range(n // 3)]
    out += exhaustive_icmp(ctx, L.PARAM_SETS[:4] if th else [L.PARAM_SETS[0], L.PARAM_SETS[1]])
    out += [gen_icmp(rng, wf=(k % 3 == 2)) for k in range(n // 3)]
    out += [gen_ka(rng) for _ in range(n // 4)]
    out += [gen_obsw(rng) for _ in range(n // 4)] + [gen_obsw_borrowed(rng) for _ in range(n // 12)]
    out += [gen_sq(rng) for _ in range(n)]
    out += [gen_tmo(rng) for _ in range(n)]
    ctx.cov["exhaustive_q"] = "every drop subset of the first 10 datagrams (1024) with request-code ACKs x %d parameter sets" % (3 if th else 1)
    ctx.cov["exhaustive"] = ("every drop subset of the first 10 datagrams (1024) x %d parameter sets; every lost / write-fails "
                             "pattern of a message's attempts x every outcome, with a second message waiting for its NSTART "
                             "slot, x %d parameter sets" % (5 if th else 2, 5 if th else 2))
    return out


def abs_of(q):
    base, rest = q.split("/")
    t, out = int(base), []
    if rest != "-":
        for x in rest.split(","):
            s, mid, d = x.split(".")
            t += int(d)
            out.append("%s.%s.%d" % (s, mid, t))
    return ",".join(out) if out else "-"


def forward_adjust(line):
    base = 1000
    for op in line.split()[1:]:
        if op.startswith("j:"):
            now = int(op[2:])
            if now > base:
                return True
            base = now
    return False


def judge(ctx, c):
    op = c["input"].split()[0]
    i, m, s = c["impl"], c["model"], c["spec"]
    if op == "msg":
        return L.judge_msg(ctx, c, L.oracle_c06)
    if op == "obsw":
        return judge_obsw(ctx, c)
    if i is not None and i.startswith("crash"):
        return ("spec", "the implementation dies: " + i[:200])
    if op == "sq" and i and m and i != "bad-op":
        if abs_of(i.split()[-1]) != s:
            return ("spec", "absolute deadlines after the operations are %s, the specification says %s" % (abs_of(i.split()[-1]), s))
    if i != m:
        return ("tie", "implementation `%s`, model `%s`" % ((i or "")[:100], (m or "")[:100]))
    return None


def known(ctx, c):
    # coap_adjust_basetime() moved forward past at least one surviving node: I = M (transcribed as is), both ≠ S
    if c["input"].startswith("sq ") and c["impl"] == c["model"] and forward_adjust(c["input"]):
        return "adjust_basetime_forward"
    # coap_session_connected(): the write of a NON taken out of the delay queue fails, no CON of the session is in flight,
    # `break` leaves the rest of the delay queue without anything that would ever send it.  I = M (the model transcribes the
    # break), the end-of-run oracle complains about exactly that session
    w = c["input"].split()
    if w[0] == "msg" and len(w) > 2 and "x" in w[2].split(",") and c.get("impl") and c.get("model"):
        it, mt = L.toks(c["impl"]), L.toks(c["model"])
        if L.split_w(it)[0] == L.split_w(mt)[0] and "nothing pending" in (c.get("why") or ""):
            for s in L.failed_non_drain_sessions(c["input"], it):
                if ("of session %d " % s) in c["why"] or ("established session %d " % s) in c["why"]:
                    return "drain_break_strands_delayed"
    return None


def nontrivial(c):
    i = c["impl"] or ""
    if c["input"].startswith("obsw"):
        return " n" in i and " W" in i
    return " tx@" in " " + i or (c["input"].startswith("sq") and "." in i) or c["input"].startswith("tmo")


def classify(c):
    w = c["input"].split()
    if w[0] == "obsw":
        i = c["impl"] or ""
        return "obsw:con-in-io" if re.search(r"(^| )n\d+\.\d+:[^ ]*:C:\d+ ; [^|]* W\d", i) else "obsw"
    if w[0] != "msg":
        return w[0]
    i = c["impl"] or ""
    if " q:" in c["input"] or re.search(r",[qQ]\d", "," + (w[2] if len(w) > 2 else "")):
        return "msg:reqack" + (":giveup" if ":retries:" in i else "") + (":bad" if ":bad:" in i else "")
    k = "msg:%dsess" % (w[1].count(",") + 1)
    if "nack@" in i and ":retries:" in i:
        k += ":giveup"
    if ":rst:" in i:
        k += ":rst"
    if "txf@" in i:
        k += ":wfail"
    return k


def search(ctx, tie_breaks, proof):
    rng = ctx.rng
    out = []
    for c in tie_breaks[:20]:
        w = c["input"].split()
        if w[0] != "msg":
            continue
        for _ in range(100):
            evs = list(w[3:])
            if len(evs) > 1 and rng.random() < 0.7:
                del evs[rng.randrange(len(evs) - 1)]
            out.append(" ".join(w[:3] + evs))
    out += [L.gen_scenario(rng, "c06") for _ in range(3000)]
    out += [gen_wf(rng) for _ in range(1500)]
    out += [gen_q(rng) for _ in range(1500)]
    out += [gen_icmp(rng, wf=(k % 3 == 2)) for k in range(1500)]
    out += [gen_ka(rng) for _ in range(1000)]
    out += [gen_obsw(rng) for _ in range(1000)]
    return out


def shrink(ctx, case):
    if not case["input"].startswith("msg "):
        return case
    import props.C06 as me
    return L.shrink_msg(ctx, me, case, judge)


# ---- T1X: the numerals of this property's models are tied to the current tree.  extract/consts2*.c + a source scan
# rewrite lean/CoapVerif/Generated/Consts2.lean on every check; Props/C06Consts.lean proves `<model numeral> =
# Generated.C2.<name>` (design/T1.md).  A changed macro / struct size / literal breaks one of these named obligations.
LEAN_MODULES = list(LEAN_MODULES) + ["CoapVerif.Props.C06Consts"]
REQUIRED_THEOREMS = list(REQUIRED_THEOREMS) + [
    "qfix_matches_code",
    "calcTimeout_shifts_matches_code",
    "qfix_defaults_matches_code",
    "calcTimeout_matches_code",
    "sess_defaults_matches_code",
    "ticks_to_ms_matches_code",
]
TRUSTED_BASE = list(TRUSTED_BASE) + ["T1 extractors extract/consts2.c, consts2_net.c, consts2_opt.c and the source scan vlib/tables.py scan_consts2 (Generated/Consts2.lean)"]
_t1x_prev_extract = globals().get("extract")


def extract(ctx):
    from vlib import tables
    return (_t1x_prev_extract(ctx) if _t1x_prev_extract else []) + tables.extract_consts2()
