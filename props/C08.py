"""C08 — NSTART bounds in-flight Confirmables; held messages go out in order, none lost (DESIGN.md §4 C08, design/C08.md)."""
from vlib import common as C, msglib as L

MANIFEST = {
    "text": "Lean theorems about the transcription M of coap_send_pdu's gate, coap_session_delay_pdu, coap_session_connected, "
            "coap_session_disconnected_lkd and every con_active update, for EVERY event sequence (arbitrary ACK/RST/NON/invalid-code "
            "arrivals incl. duplicates, retransmissions, sessions leaving and re-entering ESTABLISHED, failures): con_active_eq_inflight, "
            "inflight_le_nstart (wf_step: inductive invariant), held_fifo_exactly_once (the delay queue only changes by append-at-end "
            "without transmission, head-leaves-exactly-when-transmitted, or clear-with-one-NACK-per-held-CON; lifted to runs), "
            "failure_nacks_each_held_once, non_not_delayed_by_nstart.  M is tied to the compiled code on every run by exact trace equality "
            "on the virtual-time simulation harness (first-transmission order, con_active / delay-queue / send-queue after every event, "
            "NACK log) over bursts of 1..20 CON/NON, NSTART 1..4, lost/duplicated/late ACK and RST.",
    "note": "Trusted: Lean kernel (+ propext, Classical.choice, Quot.sound), harness/sim_core.h + msg.c, Driver/Msg.lean, generators/oracles, "
            "the hand transcription M (checked on the cases run only).  NSTART <= 255 (con_active is a uint8_t).  'Not established' is "
            "produced on UDP sessions by setting session->state as a DTLS handshake would.  The double NACK of the first IN-FLIGHT message "
            "on disconnect (DESIGN §5 row 22) is modelled as is: the property's failure clause concerns held messages.",
    "design_ref": "DESIGN.md §4 C08, design/C08.md",
}
LEAN_MODULES = ["CoapVerif.Props.C08"]
NAMESPACE = "Coap.C08"
REQUIRED_THEOREMS = ["wf_step", "con_active_eq_inflight", "inflight_le_nstart", "non_not_delayed_by_nstart",
                     "drain_fifo_exactly_once", "submit_held_appends", "held_fifo_exactly_once", "held_fifo_exactly_once_run",
                     "failure_nacks_each_held_once"]
RULE = ("scenario lines for harness/msg.c: bursts of 1..20 CON/NON on 1-3 UDP client sessions of one context, NSTART 1..4, "
        "scripted peer answering each transmission by ACK / RST / nothing, once or twice, after delays placed around the "
        "retransmission timers; stray and duplicated ACK/RST, NON with colliding ids, replies with invalid codes, "
        "cancel-by-token; sessions taken out of ESTABLISHED and brought up again, session failure; the corpus of minimal "
        "defect witnesses; non-trivial = distinct line on which at least one message was held in the delay queue")
TRUSTED_BASE = ["Lean 4.33 kernel; axioms allowed: propext, Classical.choice, Quot.sound (audited per theorem each run)",
                "harness/sim_core.h + harness/msg.c, the scenario interpreter in Driver/Msg.lean, generators and oracles in vlib/msglib.py",
                "M (Model/MsgLayer.lean over Model/SendQueue.lean) is a hand transcription of coap_send_pdu's gate, "
                "coap_session_delay_pdu, coap_session_connected, coap_session_disconnected_lkd and every con_active update; "
                "checked against the compiled code by exact trace equality incl. con_active and queue contents after every event"]
ASSUMPTIONS = ["NSTART <= 255 (con_active is a uint8_t)", "UDP client sessions; 'not established' is produced by setting "
               "session->state as a (D)TLS handshake would, 'comes up' by coap_session_connected(), 'fails' by "
               "coap_session_disconnected(NOT_DELIVERABLE)",
               "compiled Lean definitions agree with the kernel's reading of them"]
SPEC_DECISIONS = ["D14 an outcome NACK carries the sent PDU", "D15 a NON submitted before the session is established keeps its place "
                  "in the submission order; 'not delayed by NSTART' is about established sessions"]


def harness(ctx):
    return L.harness(ctx)


def bursts(rng):
    """pure bursts: n messages at once, then only the peer and the timers act"""
    out = []
    for nstart in (1, 2, 3, 4):
        for n in (1, 2, 3, 5, 8, 13, 20):
            for _ in range(6):
                p = L.rand_params(rng)
                evs = ["s:0:%s:%d:%d" % ("c" if rng.random() < 0.8 else "n", 200 + k, rng.randrange(256)) for k in range(n)]
                fates = [L.gen_fate(rng, []) for _ in range(rng.randint(0, 4 * n))]
                out.append("msg %s %s %s g:3000" % (L.sess_word(p, nstart), ",".join(fates) if fates else "-", " ".join(evs)))
    return out


def generate(ctx, escalate=False):
    rng = ctx.rng
    n = 200000 if ctx.thorough() else 5000
    if escalate:
        n *= 3
    out = bursts(rng)
    out += [L.gen_scenario(rng, "c08") for _ in range(n)]
    return out


def judge(ctx, c):
    if not c["input"].startswith("msg "):
        return None if c["impl"] == c["model"] else ("tie", "implementation `%s`, model `%s`" % (c["impl"], c["model"]))
    return L.judge_msg(ctx, c, L.oracle_c08)


def known(ctx, c):
    return None


def nontrivial(c):
    import re
    return bool(re.search(r"\[[\d,]+;[\d,]*[1-9]", c["impl"] or ""))


def classify(c):
    w = c["input"].split()
    if w[0] != "msg":
        return w[0]
    k = "nstart" + "/".join(sorted({p.split(".")[5] for p in w[1].split(",")}))
    if " h:" in c["input"]:
        k += ":hold"
    if " f:" in c["input"]:
        k += ":fail"
    return k


def search(ctx, tie_breaks, proof):
    rng = ctx.rng
    out = []
    for c in tie_breaks[:20]:
        w = c["input"].split()
        for _ in range(100):
            evs = list(w[3:])
            if len(evs) > 1 and rng.random() < 0.7:
                del evs[rng.randrange(len(evs) - 1)]
            out.append(" ".join(w[:3] + evs))
    out += [L.gen_scenario(rng, "c08") for _ in range(3000)]
    return out


def shrink(ctx, case):
    import props.C08 as me
    return L.shrink_msg(ctx, me, case, judge)
