"""C08 — NSTART bounds in-flight Confirmables; held messages go out in order, none lost (DESIGN.md §4 C08, design/C08.md)."""
from vlib import common as C, msglib as L

MANIFEST = {
    "text": "Lean theorems about the transcription M of coap_send_pdu's gate, coap_session_delay_pdu, coap_session_connected, "
            "coap_session_disconnected_lkd and every con_active update, for EVERY event sequence (arbitrary ACK/RST/NON/invalid-code "
            "arrivals incl. duplicates, retransmissions, sessions leaving and re-entering ESTABLISHED, failures): con_active_eq_inflight, "
            "inflight_le_nstart (wf_step: inductive invariant), held_fifo_exactly_once (the delay queue only changes by append-at-end "
            "without transmission, head-leaves-exactly-when-transmitted, or clear-with-one-NACK-per-held-CON; lifted to runs), "
            "no_idle_hold (an established session holds a message only if it is a CON and exactly NSTART CONs are in flight: whatever "
            "ends an exchange re-opens the gate in the same event), failure_nacks_each_held_once, non_not_delayed_by_nstart.  The same "
            "theorems (…_x) over the extended model MsgLayerX for every sequence of base AND extended events: requests with explicit "
            "tokens and coap_cancel_all_messages transcribed as the pointer walk it is (one separate response cancelling several "
            "Confirmables frees one slot each), an ICMP error read from the socket (icmp_changes_only_output: the in-flight CONs stay "
            "counted), keepalive (ping loop of coap_io_prepare_io_lkd, coap_session_send_ping_lkd, last_rx_tx/last_ping_mid, the clamp "
            "of the retransmission delay, the is_ping_rst case of the RST branch: a ping takes and frees a slot like any CON); "
            "x_agrees_with_base.  (Round 4) a piggy-backed response (ACK carrying a response and a token: ACK branch of coap_dispatch + "
            "handle_response incl. the last_ack_mid duplicate check) is an event of MsgLayerX: it concludes the message whose id it "
            "carries and no other (piggybacked_ack_concludes_only_its_own), and when its id is no longer in the send queue (the "
            "network's duplicate, a late copy) it changes nothing but the output whatever token it carries "
            "(unmatched_piggybacked_ack_changes_only_output); 'in flight' in the property's sense - sent and neither acknowledged, reset "
            "nor given up - is made formal by the LEDGER of a message (Lemmas/MsgLedger.lean: its nodes in the send queue + in its "
            "session's delay queue + its TOO_MANY_RETRIES reports) and in_flight_until_concluded(_run): for EVERY event of the extended "
            "model that does not conclude that message (an ACK / RST / invalid-code reply / piggy-backed response with its id, a "
            "separate response with the token of a message with that id, the failure of its session) the ledger does not decrease - a "
            "Confirmable in flight stays in the send queue, counted by con_active, until it is concluded or reported as given up, so "
            "its slot is never handed on silently; DTLS sessions are sessions of MsgLayerX (the guards "
            "COAP_PROTO_NOT_RELIABLE of every con_active update are open for both datagram transports; the DTLS branch of "
            "coap_session_disconnected_lkd leaves state NONE): con_active_eq_inflight_le_nstart_dtls, no_idle_hold_dtls, failure_dtls "
            "for every mix of UDP and DTLS sessions and every event sequence.  M is tied to the compiled code on every run by exact trace equality on the virtual-time simulation "
            "harness (first-transmission order, con_active / delay-queue / send-queue after every event, NACK log) over bursts of 1..20 "
            "CON/NON, NSTART 1..4, lost/duplicated/late ACK and RST, shared tokens + separate responses, ICMP errors, keepalive 1..10 s "
            "with pong / ACK / loss, piggy-backed responses duplicated / late / stray, and every kind of scenario on DTLS sessions "
            "(session->proto == COAP_PROTO_DTLS with libcoap's DTLS layer table; the record layer is the identity) next to UDP "
            "sessions; the property's clauses are also judged on the implementation's trace alone, incl. (round 4) 'in flight' as the "
            "property defines it - sent and neither acknowledged, reset nor given up, kept as a ledger from the transmissions and the "
            "peer's replies without looking at the library's queues - never exceeding NSTART.  Sessions with the REAL GnuTLS: `dtls` "
            "lines run on C19's harness and model (DTLS client session + DTLS server endpoint in one process, real handshake and "
            "record layer, virtual clock, scripted wire) with a burst of 1..6 CON/NON submitted at the moment the session is "
            "ESTABLISHED, losses / duplicates among the application records: the same NSTART clauses and ledger on the client "
            "session's counters after every libcoap entry point, tied segment by segment to Model/TlsGate.lean (tie + observation: "
            "no C08 theorem ranges over that model).  (Round 6) FAILING SOCKET WRITES: over the write-failure model "
            "Model/MsgLayerW.lean (coap_socket_send may return -1 for any datagram; the list of results is one more universally "
            "quantified input) wf_step_w / con_active_eq_inflight_le_nstart_w (con_active = Confirmables in the send queue <= NSTART "
            "for every event sequence and every pattern of failing writes), released_con_takes_slot_whatever_the_write_returns (a "
            "Confirmable that coap_session_connected takes out of the delay queue is queued for retransmission by coap_wait_ack AND "
            "counted, whatever the write returned), drain_with_failing_writes_is_drain_stopped_early + held_fifo_exactly_once_w(_run) "
            "(the delay queue still evolves only by append-at-end / head-leaves-exactly-when-its-write-is-attempted / clear: a failing "
            "write lets nobody overtake), no_idle_hold_w_partial (no idle hold as long as no first transmission failed; the full "
            "statement is false for the code as it is - the drain loop stops at a failing write - see the open finding "
            "drain_break_strands_delayed); tied on lines with `x` fates (the k-th write of every burst failing, random failures in "
            "every c08 scenario, new submissions after a failed release) and judged on the implementation's trace: con_active = queued "
            "<= NSTART after every event, first write ATTEMPTS in submission order, in flight from the first successful write <= NSTART.",
    "note": "Trusted: Lean kernel (+ propext, Classical.choice, Quot.sound), harness/sim_core.h + msg.c, Driver/Msg.lean, generators/oracles, "
            "the hand transcription M (checked on the cases run only).  NSTART <= 255 (con_active is a uint8_t).  'Not established' is "
            "produced on UDP sessions by setting session->state as a DTLS session would.  The double NACK of the first IN-FLIGHT message "
            "on disconnect (DESIGN §5 row 22) is modelled as is: the property's failure clause concerns held messages.  DTLS sessions of "
            "the simulation harness have the identity as record layer (coap_dtls_send / coap_dtls_receive / coap_dtls_free_session / "
            "coap_dtls_get_timeout replaced at link time): libcoap's own code runs as on an established DTLS session, GnuTLS does not "
            "(sessions with the real GnuTLS: C19).  The python in-flight ledger is the trace-side reading of the property (observation "
            "on the runs made); its model-side counterpart is the theorem in_flight_until_concluded over M.  Not modelled: the "
            "RFC 8974 extended-token probe (the other library-generated Confirmable whose RST takes the is_ext_token_rst path), keepalive "
            "longer than ACK_TIMEOUT is not generated (the wait returned after a ping ignores the ping's own deadline: C06 territory).  "
            "Failing socket writes are modelled for UDP sessions and the base alphabet only (not together with shared tokens, ICMP, "
            "keepalive, piggy-backed responses or DTLS sessions).",
    "design_ref": "DESIGN.md §4 C08, design/C08.md",
}
LEAN_MODULES = ["CoapVerif.Props.C08"]
NAMESPACE = "Coap.C08"
REQUIRED_THEOREMS = ["wf_step", "con_active_eq_inflight", "inflight_le_nstart", "non_not_delayed_by_nstart",
                     "drain_fifo_exactly_once", "submit_held_appends", "held_fifo_exactly_once", "held_fifo_exactly_once_run",
                     "failure_nacks_each_held_once",
                     # extended model (explicit tokens + cancel walk, ICMP error, keepalive)
                     "wf_step_x", "con_active_eq_inflight_x", "inflight_le_nstart_x", "non_not_delayed_by_nstart_x",
                     "held_fifo_exactly_once_x", "held_fifo_exactly_once_x_run", "icmp_changes_only_output",
                     "x_agrees_with_base", "submitT_mid_is_submit",
                     # "later transmitted as earlier exchanges finish"
                     "no_idle_hold", "no_idle_hold_x",
                     # round 4: piggy-backed responses, DTLS sessions
                     "piggybacked_ack_concludes_only_its_own", "unmatched_piggybacked_ack_changes_only_output",
                     "con_active_eq_inflight_le_nstart_dtls", "no_idle_hold_dtls", "failure_dtls",
                     "in_flight_until_concluded", "in_flight_until_concluded_run",
                     # round 6: failing socket writes (Model/MsgLayerW.lean), every write oracle
                     "wf_step_w", "con_active_eq_inflight_le_nstart_w", "released_con_takes_slot_whatever_the_write_returns",
                     "drain_with_failing_writes_is_drain_stopped_early", "held_fifo_exactly_once_w",
                     "held_fifo_exactly_once_w_run", "no_idle_hold_w_partial"]
RULE = ("scenario lines for harness/msg.c: bursts of 1..20 CON/NON on 1-3 UDP client sessions of one context, NSTART 1..4, "
        "scripted peer answering each transmission by ACK / RST / nothing, once or twice, after delays placed around the "
        "retransmission timers; stray and duplicated ACK/RST, NON with colliding ids, replies with invalid codes, "
        "cancel-by-token; sessions taken out of ESTABLISHED and brought up again, session failure; lines with the extended events: "
        "1..12 submissions sharing 1..3 tokens + separate (NON) responses carrying them, ICMP errors read from the socket, keepalive "
        "1..10 s (<= ACK_TIMEOUT) switched on/off with silent periods around the ping time and pong (RST) / ACK / loss as fates, and "
        "mixtures; piggy-backed responses (ACK + 2.05 + token) as the peer's answer, delivered once or twice (duplicate / late copy "
        "arriving while later messages that may share the token are in flight or after the request was given up) and as stray "
        "events for in-flight / concluded / held / unknown ids; a third of all sessions are DTLS sessions (7th field of the session "
        "word = 2), every burst size x NSTART also on a DTLS session; `dtls` lines (harness/dtls.c, real GnuTLS on both sides): 0..3 "
        "requests queued before the handshake + a burst b= of 1..6 CON/NON at the moment the client session is ESTABLISHED, default "
        "NSTART, five working credential configurations, per-datagram loss / duplication after (or during) the handshake; the corpus "
        "of minimal defect witnesses; lines with failing socket writes (fate x, UDP sessions, base alphabet): bursts of 3..8 CON x "
        "NSTART 1..3 in which the k-th write fails (every k) and the application submits one more Confirmable 1..3000 ticks later, "
        "and c08 scenarios with 1..5 failing writes at random positions; non-trivial = distinct line on which at least one message was held in "
        "the delay queue")
TRUSTED_BASE = ["Lean 4.33 kernel; axioms allowed: propext, Classical.choice, Quot.sound (audited per theorem each run)",
                "harness/sim_core.h + harness/msg.c, the scenario interpreter in Driver/Msg.lean, generators and oracles in vlib/msglib.py",
                "M (Model/MsgLayer.lean + Model/MsgLayerX.lean + Model/MsgLayerW.lean (failing socket writes: coap_send_internal's goto "
                "error, coap_retransmit, the loop of coap_session_connected incl. its break) over Model/SendQueue.lean) is a hand transcription of coap_send_pdu's gate, "
                "coap_session_delay_pdu, coap_session_connected, coap_session_disconnected_lkd (both reasons), coap_cancel_all_messages, "
                "the keepalive loop, coap_session_send_ping_lkd, the RST branch incl. is_ping_rst, the ACK branch + handle_response for "
                "a piggy-backed response, the UDP / DTLS branch of coap_session_disconnected_lkd and every con_active update; "
                "checked against the compiled code by exact trace equality incl. con_active and queue contents after every event",
                "last_rx_tx is stamped in M after each step for every session that transmitted in it (the C code stamps it inside "
                "coap_netif_dgrm_write); the index arithmetic by which M follows the pointer p of coap_cancel_all_messages across "
                "insertions (cancelWalk) is an emulation of pointer identity, tied to the code on the cases run",
                "DTLS sessions of harness/msg.c: a UDP client session turned into a DTLS session (proto, coap_layers_coap[COAP_PROTO_DTLS], "
                "non-NULL session->tls, coap_session_connected()) whose record layer is the identity: --wrap of coap_dtls_send (-> "
                "lfunc[COAP_LAYER_TLS].l_write, as GnuTLS' push callback), coap_dtls_receive (-> coap_handle_dgram, as after "
                "gnutls_record_recv), coap_dtls_free_session, coap_dtls_get_timeout; GnuTLS itself is not exercised here (C19 does)",
                "`dtls` lines: everything C19 trusts for its DTLS run (harness/dtls.c + dtls_pipe.py, the wrapped GnuTLS entry points as "
                "oracle, Model/TlsGate.lean + Driver/TlsGate.lean as M) and props/C08.oracle_dtls",
                "vlib/msglib.InFlightLedger: the property's definition of 'in flight' replayed on the implementation's trace (scripted "
                "peer re-computed from the fates; errs on the side of silence)"]
ASSUMPTIONS = ["NSTART <= 255 (con_active is a uint8_t)", "UDP and DTLS client sessions (DTLS: identity record layer, see TRUSTED_BASE); "
               "a separate response carrying a request's token counts as its acknowledgement (RFC 7252 5.2.2, D16); "
               "'not established' is produced by setting "
               "session->state as a (D)TLS handshake would, 'comes up' by coap_session_connected(), 'fails' by "
               "coap_session_disconnected(NOT_DELIVERABLE); an ICMP error is a real read of -2 from the (wrapped) socket; "
               "keepalive <= ACK_TIMEOUT; message ids chosen by the application stay clear of the library's ping ids",
               "compiled Lean definitions agree with the kernel's reading of them"]
SPEC_DECISIONS = ["D14 an outcome NACK carries the sent PDU", "D15 a NON submitted before the session is established keeps its place "
                  "in the submission order; 'not delayed by NSTART' is about established sessions",
                  "D16 'acknowledged' includes: a separate (CON/NON) response carrying the request's token has arrived (RFC 7252 5.2.2: "
                  "the client stops retransmitting; the peer has the request) - an ACK for ANOTHER message id acknowledges nothing, "
                  "whatever token it carries"]


def harness(ctx):
    return L.harness(ctx)


# ---------------------------------------------------------------- DTLS sessions with the REAL GnuTLS (borrowed from C19)
# `dtls` lines run on C19's harness (harness/dtls.c: a DTLS client session and a DTLS server endpoint in one process, real GnuTLS
# handshake and record layer, virtual clock, scripted wire) with C19's model M (Model/TlsGate.lean, replayed per segment by
# harness/dtls_pipe.py) - here with `b=`: a burst the application submits at the first moment the session is ESTABLISHED, the
# peer being a real libcoap server that answers every request with a piggy-backed response, datagrams lost / duplicated after the
# handshake.  Judged: the NSTART clauses on the client session's own counters after every libcoap entry point, the in-flight
# ledger (sent and neither acknowledged, reset nor given up) from the PDUs handed to / read from the TLS library, and the tie to
# C19's M segment by segment.  No C08 theorem ranges over Model/TlsGate.lean: this part is tie + observation.
def _p19():
    import props.C19 as P19
    return P19


HARNESS_FOR_OP = {"dtls": lambda ctx: _p19().harness(ctx)}
RUN_KW_FOR_OP = {"dtls": {"timeout": 900}}
DTLS_NSTART = 1          # the default NSTART (harness/dtls.c does not change it; Model/TlsGate.lean: NSTART = 1)
DTLS_CREDS = [[], ["ck=00112233445566778899aabbccddeeff", "sk=00112233445566778899aabbccddeeff"], ["st=6964:6b6579"],
              ["sni=686f7374", "ss=686f7374:68:6b6579"], ["sh=68696e74", "ih=68696e74"]]


def gen_dtls(rng, n):
    out = []
    for q in ("", "C", "CC", "N"):
        for b in ("C", "CC", "CCC", "CNC", "NCC", "CCN", "CCCCCC", "NNCCNC"):
            out.append("dtls " + " ".join(([("q=" + q)] if q else []) + ["b=" + b]))
    for _ in range(n):
        w = list(rng.choice(DTLS_CREDS)) if rng.random() < 0.3 else []
        q = rng.choice(["", "", "C", "N", "CC", "CN", "CCC"])
        if q:
            w.append("q=" + q)
        w.append("b=" + "".join("C" if rng.random() < 0.8 else "N" for _ in range(rng.randint(1, 6))))
        c = rng.random()
        if c < 0.55:
            # a loss-free handshake is 13 datagrams: losses and duplicates among the application records that follow
            w.append("f=" + "d" * rng.choice([13, 13, 13, 11, 12]) + "".join(rng.choice("ddddxx2") for _ in range(rng.randint(1, 24))))
        elif c < 0.7:
            w.append("f=" + "".join(rng.choice("dddddddx2") for _ in range(rng.randint(5, 40))))
        rng.shuffle(w)
        out.append("dtls " + " ".join(w))
    return out


def oracle_dtls(inp, isegs):
    """the NSTART clauses and the in-flight ledger on the client session of a `dtls` line (trace of I alone)"""
    P = _p19()
    ns = DTLS_NSTART
    open_, first_tx, seen = {}, [], set()
    for k, sg in enumerate(P.parse_segments(isegs)):
        if sg["who"] != "c":
            continue
        where = "segment %d (c:%s)" % (k, sg["ev"])
        for o in sg["orc"]:
            if o.startswith("rec=data:"):
                v = o.split(":", 1)[1].split(".")
                if len(v) >= 4:
                    kind, code, mid, tok = v[0], int(v[1]), v[2], v[3]
                    if kind in "AR":
                        open_.pop(mid, None)                  # an ACK / RST with ITS message id
                    elif code >= 64:
                        for m in [m for m, t in open_.items() if t == tok]:
                            del open_[m]                      # a separate response with ITS token
        for o in sg["out"]:
            if o.startswith("tx:C."):
                v = o[3:].split(".")
                mid, tok = v[2], v[3]
                if v[1] == "1" and (mid, tok) not in seen:
                    seen.add((mid, tok))
                    first_tx.append(tok)
                    open_[mid] = tok
            elif o.startswith("nack:"):
                tok = o.split(":")[2]
                for m in [m for m, t in open_.items() if t == tok]:
                    del open_[m]
        st = dict(kv.split("=", 1) for kv in sg["st"].split(",")) if sg["st"] != "gone" else None
        if st is None or st.get("st") != "4":
            open_.clear()
            continue
        ca, inf, dq = int(st["ca"]), int(st["if"]), int(st["dq"])
        if ca != inf:
            return "%s: con_active of the DTLS session is %d but %d Confirmables are waiting for their ACK" % (where, ca, inf)
        if inf > ns:
            return "%s: %d Confirmables in flight on the DTLS session, NSTART is %d" % (where, inf, ns)
        if len(open_) > ns:
            return ("%s: %d Confirmables of the DTLS session have been sent and are neither acknowledged, reset nor given up (tokens "
                    "%s), NSTART is %d" % (where, len(open_), sorted(open_.values()), ns))
        if dq > 0 and inf < ns:
            return "%s: the established DTLS session holds %d message(s) although only %d of NSTART=%d Confirmables are in flight" % (
                where, dq, inf, ns)
    if first_tx != sorted(first_tx):
        return "the Confirmables of the DTLS session were first transmitted in the order %s, not in submission order" % first_tx
    return None


def judge_dtls(ctx, c):
    P = _p19()
    i, m = c["impl"], c["model"]
    if i is None or i.startswith("crash"):
        return ("spec", "the real code aborted on this scenario (sanitizer report / crash): %s" % i)
    if i == "bad-op" or m == "bad-op":
        return None if i == m else ("tie", "bad-op on one side only: impl %s model %s" % (i[:40], (m or "")[:40]))
    if " | wire " not in i:
        return ("tie", "harness could not set the scenario up: %s" % i[:100])
    try:
        isegs, wire, hs, mseg, cred = P.split_impl(i)
        why = oracle_dtls(c["input"], isegs)
    except Exception as e:
        return ("tie", "unreadable harness output (%s): %s" % (e, i[:200]))
    if why:
        return ("spec", why)
    if isegs != mseg:
        a, b = isegs.split(" ; "), mseg.split(" ; ")
        for k in range(max(len(a), len(b))):
            x = a[k] if k < len(a) else "<nothing>"
            y = b[k] if k < len(b) else "<nothing>"
            if x != y:
                return ("tie", "segment %d: implementation `%s` but model M (TlsGate) `%s`" % (k, x[:200], y[:200]))
    return None


def bursts(rng):
    """pure bursts: n messages at once, then only the peer and the timers act"""
    out = []
    for nstart in (1, 2, 3, 4):
        for n in (1, 2, 3, 5, 8, 13, 20):
            for j in range(6):
                p = L.rand_params(rng)
                evs = ["s:0:%s:%d:%d" % ("c" if rng.random() < 0.8 else "n", 200 + k, rng.randrange(256)) for k in range(n)]
                fates = [L.gen_fate(rng, []) for _ in range(rng.randint(0, 4 * n))]
                # every burst size x NSTART on both datagram transports: j = 0, 1 on a DTLS session (sess word ….2)
                out.append("msg %s %s %s g:3000" % (L.sess_word(p, nstart, 2 if j < 2 else 1), ",".join(fates) if fates else "-", " ".join(evs)))
    # bursts of Confirmables that SHARE a token (a strictly serial client may do that: RFC 7252 5.3.1), every one answered by a
    # piggy-backed response that the network duplicates (the copy arrives while a later message of the burst is in flight)
    for nstart in (1, 2, 3):
        for n in (2, 3, 5, 8):
            for j in range(3):
                p = L.rand_params(rng)
                tok = rng.choice([0, 7, 66, 65535])
                evs = ["S:0:c:%d:%d:%d" % (200 + k, rng.randrange(256), tok) for k in range(n)]
                fates = [rng.choice(["P%d+%d" % (d, d + e) for d in (0, 1, 50) for e in (0, 1, 400, 1000)] + ["p0", "a0", "d"]) for _ in range(2 * n)]
                out.append("msg %s %s %s g:3000" % (L.sess_word(p, nstart, 2 if j == 0 else 1), ",".join(fates), " ".join(evs)))
    return out


def bursts_w(rng):
    """failing socket writes, swept: a burst of n Confirmables against NSTART (the first NSTART go out in coap_send(), the
    others are held and released one by one as the ACKs arrive), the k-th write handed to the socket FAILS - for every k: a
    first transmission in coap_send() (refused), the first transmission of a RELEASED message in coap_session_connected()
    (queued and counted whatever the write returns; the loop stops), the write after that - then, DT ticks later (before /
    at / after the failed message's retransmission), the application submits one more Confirmable, which must queue up
    behind the held ones."""
    out = []
    for nstart in (1, 2, 3):
        for n in (3, 4, 6, 8):
            for k in range(0, n + 2):
                p = L.rand_params(rng)
                d = rng.choice([0, 1, 10, 50])
                fates = ["a%d" % d] * k + ["x"] + [rng.choice(["a%d" % d, "a%d" % d, "d", "a400"]) for _ in range(2 * n)]
                evs = ["s:0:%s:%d:%d" % ("c" if j < nstart + 1 or rng.random() < 0.85 else "n", 300 + j, rng.randrange(256)) for j in range(n)]
                dt = rng.choice([1, 20, 100, 999, 3000])
                out.append("msg %s %s %s t:%d s:0:c:%d:%d g:3000" % (L.sess_word(p, nstart), ",".join(fates), " ".join(evs), dt, 300 + n,
                                                                     rng.randrange(256)))
    return out


def generate(ctx, escalate=False):
    rng = ctx.rng
    n = 120000 if ctx.thorough() else 5000      # (thorough was 200000 before the write-failure families were added: keep the tier inside ~30 min)
    if escalate:
        n *= 3
    out = bursts(rng)
    out += [L.gen_scenario(rng, "c08") for _ in range(n)]
    # extended events: shared tokens cancelled by one separate response, ICMP errors, keepalive pings (and mixtures)
    out += [L.gen_scenario_x(rng) for _ in range(n // 2)]
    # failing socket writes (write-failure model): the k-th write of a burst, random failures in c08 scenarios
    out += bursts_w(rng)
    out += [L.gen_scenario_w(rng) for _ in range(n // 4)]
    # DTLS sessions with the real GnuTLS: bursts on the session right after the handshake (C19's harness and model)
    out += gen_dtls(rng, 4000 if ctx.thorough() else 260)
    return out


def judge(ctx, c):
    if c["input"].startswith("dtls "):
        return judge_dtls(ctx, c)
    if not c["input"].startswith("msg "):
        return None if c["impl"] == c["model"] else ("tie", "implementation `%s`, model `%s`" % (c["impl"], c["model"]))
    return L.judge_msg(ctx, c, L.oracle_c08)


def known(ctx, c):
    # coap_session_connected(): the write of a NON taken out of the delay queue fails while no Confirmable of the session is in
    # flight; `break` leaves the rest of the delay queue without anything that would ever send it (KNOWN_FINDINGS.txt, found by
    # C06).  I = M on the events (the model transcribes the break); the oracle marks exactly this state with L.DRAIN_BREAK.
    w = c["input"].split()
    if (w[0] == "msg" and len(w) > 2 and "x" in w[2].split(",") and L.DRAIN_BREAK in (c.get("why") or "")
            and c.get("impl") and c.get("model")):
        if L.split_w(L.toks(c["impl"]))[0] == L.split_w(L.toks(c["model"]))[0]:
            return "drain_break_strands_delayed"
    return None


def nontrivial(c):
    import re
    if c["input"].startswith("dtls "):
        return bool(re.search(r"st=4,tls=1,dq=[1-9]", c["impl"] or ""))
    return bool(re.search(r"\[[\d,]+;[\d,]*[1-9]", c["impl"] or ""))


def classify(c):
    w = c["input"].split()
    if w[0] == "dtls":
        return "dtls-gnutls" + (":loss" if any(x.startswith("f=") for x in w) else "")
    if w[0] != "msg":
        return w[0]
    k = "nstart" + "/".join(sorted({p.split(".")[5] for p in w[1].split(",")}))
    if " h:" in c["input"]:
        k += ":hold"
    if " f:" in c["input"]:
        k += ":fail"
    if " S:" in c["input"]:
        k += ":tok"
    if " i:" in c["input"]:
        k += ":icmp"
    if " k:" in c["input"]:
        k += ":ka"
    if " p:" in c["input"] or any(f[:1] in "pP" for f in w[2].split(",")):
        k += ":pig"
    if any(p.count(".") == 6 and p.endswith(".2") for p in w[1].split(",")):
        k += ":dtls"
    if "x" in w[2].split(","):
        k += ":wfail"
    return k


def search(ctx, tie_breaks, proof):
    rng = ctx.rng
    out = []
    for c in tie_breaks[:20]:
        w = c["input"].split()
        if w[0] != "msg":
            continue
        for _ in range(100):
            evs = list(w[3:])
            if len(evs) > 1 and rng.random() < 0.7:
                del evs[rng.randrange(len(evs) - 1)]
            out.append(" ".join(w[:3] + evs))
    out += [L.gen_scenario(rng, "c08") for _ in range(3000)]
    out += [L.gen_scenario_x(rng) for _ in range(1500)]
    out += [L.gen_scenario_w(rng) for _ in range(1000)]
    out += gen_dtls(rng, 300)
    return out


def shrink_dtls(ctx, case):
    """drop configuration words, shorten the burst and the fate string while the implementation still contradicts the property"""
    from vlib.runner import diff_side
    import props.C08 as me
    best = case
    for _ in range(6):
        w = best["input"].split()[1:]
        cands = [w[:i] + w[i + 1:] for i in range(len(w))]
        for i, x in enumerate(w):
            if (x.startswith("f=") or x.startswith("b=") or x.startswith("q=")) and len(x) > 3:
                cands.append(w[:i] + [x[:-1]] + w[i + 1:])
        found = None
        for cc in diff_side(ctx, me, ["dtls " + " ".join(t) for t in cands if t]):
            v = judge(ctx, cc)
            if v and v[0] == "spec" and len(cc["input"]) < len(best["input"]):
                cc = dict(cc); cc["why"] = v[1]
                found = cc
                break
        if not found:
            break
        best = found
    return best


def shrink(ctx, case):
    import props.C08 as me
    if case["input"].startswith("dtls "):
        return shrink_dtls(ctx, case)
    return L.shrink_msg(ctx, me, case, judge)


# ---- T1X: the numerals of this property's models are tied to the current tree.  extract/consts2*.c + a source scan
# rewrite lean/CoapVerif/Generated/Consts2.lean on every check; Props/C08Consts.lean proves `<model numeral> =
# Generated.C2.<name>` (design/T1.md).  A changed macro / struct size / literal breaks one of these named obligations.
LEAN_MODULES = list(LEAN_MODULES) + ["CoapVerif.Props.C08Consts"]
REQUIRED_THEOREMS = list(REQUIRED_THEOREMS) + [
    "sess_defaults_matches_code",
    "sess_calcTimeout_matches_code",
    "mid_modulus_matches_code",
    "clampDelay_matches_code",
]
TRUSTED_BASE = list(TRUSTED_BASE) + ["T1 extractors extract/consts2.c, consts2_net.c, consts2_opt.c and the source scan vlib/tables.py scan_consts2 (Generated/Consts2.lean)"]
_t1x_prev_extract = globals().get("extract")


def extract(ctx):
    from vlib import tables
    return (_t1x_prev_extract(ctx) if _t1x_prev_extract else []) + tables.extract_consts2()
