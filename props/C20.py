"""C20 — /.well-known/core lists exactly the registered resources in any window/filter (DESIGN.md §4 C20)."""
import os, subprocess
from vlib import common as C

MANIFEST = {
    "text": "Lean theorems over ALL resource tables, queries, offsets and buffer sizes: the transcription M of the PRINT_*_WITH_OFFSET "
            "macros, coap_print_link, coap_print_wellknown_lkd (query splitter, coap_find_attr, match()) writes exactly "
            "(listing.drop offset).take buflen of the RFC 6690 listing S of the registered resources the filter selects "
            "(window_exact, via a closed form of the writer proved once for one byte and lifted over bytes, pieces and resources), "
            "reports the exact total (total_exact), sets TRUNC for a non-empty buffer iff listing remains (trunc_flag_iff); "
            "match() = RFC 6690 matching (exact / prefix* / SP-separated tokens) and never reads outside its strings "
            "(match_eq_spec, match_no_overread, filter_eq_spec, wellknown_no_overread); the GET handler's body is the listing and "
            "the blocks of any size tile it (get_body_eq_listing, block_get_reassembles). M is tied to the compiled code by "
            "differential runs I vs M vs S: every (offset, buflen) pair up to listing length + 2 on generated tables/filters with "
            "exact-size heap objects under ASan/UBSan, plus a real block-wise GET through coap_dispatch() for every SZX. "
            "get_reassembles: a GET with any Uri-Query options and any block size yields the listing for the first option. "
            "interleaved_gets_reassemble: block requests of any number of transfers with any filters may interleave in any order on "
            "one or several sessions - the Block2 response cache, keyed by coap_get_query()'s string (injective by C16), serves "
            "every transfer from its own listing; checked against real interleaved GETs through coap_dispatch() (getx). "
            "live_gets_current_listing: for EVERY sequence of coap_add_resource / coap_delete_resource / coap_add_attr and "
            "coap_resource_set_get_observable on already registered resources, interleaved with complete block-wise GETs and "
            "coap_print_wellknown calls, from any table and any Block2-cache content, every request yields the listing of the "
            "table as it is at that moment (nothing computed for an earlier request survives); checked against the real code "
            "on one long-lived context per line (wklive: GET, change a REGISTERED resource, GET again, ...). "
            "Four defects found by the check were fixed in libcoap (match() prefix overread / cross-token match, read behind an "
            "empty pattern, quote stripping with SIZE_MAX length, GET path filtering on the percent-encoded query); none is open.",
    "note": "Trusted: Lean kernel (+ propext, Classical.choice, Quot.sound), harness/generator/judge, the hand transcription M "
            "(checked against the compiled code on the cases run only), uthash's insertion-order iteration. Hypothesis of the "
            "theorems: buflen <= COAP_PRINT_STATUS_MAX. Block slicing itself belongs to the block-wise layer (C09).",
    "design_ref": "DESIGN.md §4 C20, design/C20.md",
}
LEAN_MODULES = ["CoapVerif.Props.C20"]
NAMESPACE = "Coap.C20"
REQUIRED_THEOREMS = ["window_exact", "total_exact", "trunc_flag_iff", "listing_exactly_registered", "match_eq_spec",
                     "match_no_overread", "block_get_reassembles", "wellknown_eq", "filter_eq_spec", "get_body_eq_listing",
                     "get_reassembles", "get_query_with_space_listed",
                     "interleaved_gets_reassemble", "interleaved_gets_reassemble_of_keyed", "keyed_of_small",
                     "live_gets_current_listing", "get_after_change", "attr_added_is_listed",
                     "blocks_of_one_etag_are_one_listing", "block_under_etag_is_block_of_block0_listing",
                     "restart_gets_current_listing", "etags_never_reused", "same_key_same_listing", "etag_blocks_reassemble"]
RULE = ("resource tables built by 0..12 coap_add_resource/coap_delete_resource calls (paths from a small pool so that "
        "re-registration happens, 0..4 attributes with/without value, quoted/unquoted/empty/one-byte/malformed-quote values, "
        "observable / OSCORE-only markers, library-copied or caller-owned exact-size strings) x filters (none, NULL, href/rt/if/rel/"
        "other names; token, prefix*, pattern longer than a token, pattern with SP, leading '/', empty, no '=', empty name) x "
        "ALL (offset, buflen) pairs up to listing length + 2 for listings up to the tier's size limit (sampled rows/columns "
        "beyond), plus the size-probe/full-print body of the GET handler, a real block-wise GET through coap_dispatch() for "
        "every Block2 size (SZX 0..6), interleaved block-wise GETs (2-3 transfers with different/equal/no filters on one or two "
        "sessions, round-robin / bug-order / sequential / random orders), live sequences on ONE context (wklive: 3-14 events; "
        "coap_add_attr / coap_resource_set_get_observable on registered (sometimes unregistered) paths, re-registration, deletion, "
        "interleaved with complete block-wise GETs - mostly unfiltered, repeated on the same session, SZX 0..6 - and "
        "coap_print_wellknown calls) and match() on short strings over {a,b,SP}; "
        "non-trivial = distinct input whose listing is non-empty"
        " + op wkev: event sequences {GET block k of /.well-known/core with query / Request-Tag / SZX from several sessions, table changes, lg_xmit timeouts}: responses grouped by ETag must reassemble to the listing of the table at that ETag's block 0")
TRUSTED_BASE = ["Lean 4.33 kernel; axioms allowed: propext, Classical.choice, Quot.sound (audited per theorem each run)",
                "harness/linkfmt.c + generator + field-wise comparison in props/C20.py",
                "M (CoapVerif/Model/LinkFormat.lean) is a hand transcription of the PRINT_* macros, coap_print_link, match(), "
                "coap_find_attr, coap_print_wellknown_lkd and the two calls of hnd_get_wellknown_lkd; checked against the compiled "
                "code only on the cases run",
                "M of the Block2 response cache (CoapVerif/Model/WkBlock.lean: coap_handle_request_send_block / coap_find_lg_xmit_response / "
                "coap_add_data_large_internal as far as they decide which body a block comes from; GET + Block2 only, no ETag/Request-Tag/"
                "Observe/Q-Block, no expiry) - checked by the getx differential; the block layer as a whole is C09's",
                "M of a live server (CoapVerif/Model/WkLive.lean: hnd_get_wellknown_lkd keeps nothing between requests, the Block2 cache "
                "is the only surviving state; table changes happen between complete fetches) - checked by the wklive differential; "
                "coap_add_attr = prepend to the registered resource's attributes, coap_resource_set_get_observable = flag in place "
                "(Spec applyOp, shared by M and S, exercised by the generator, not proved)",
                "uthash iterates in insertion order and coap_add_resource replaces an equal path (modelled by Spec register/unregister, "
                "exercised by the generator, not proved)"]
ASSUMPTIONS = ["buflen <= COAP_PRINT_STATUS_MAX (0x0FFFFFFF) and offset + buflen < 2^64 (no wrap of the status word / size_t)",
               "a non-NULL attribute value has a non-NULL `s`; strings are byte strings of their stated length",
               "coap_print_wellknown(): the query is taken as the decoded search string; on the GET path the filter is the first "
               "Uri-Query option's bytes (SPEC DECISION D20.8)",
               "block slicing of the body is the block-wise layer's (C09): C20 proves the tiling lemma, proves the body the handler "
               "hands over, and observes the reassembled GET for every SZX",
               "compiled Lean definitions agree with the kernel's reading of them"]
SPEC_DECISIONS = ["D20.1 attributes are listed in table order (most recently added first), then ;obs, then ;osc",
                  "D20.2 empty query / empty name = no filter; non-empty query without '=' selects nothing",
                  "D20.3 href: one leading '/' of the token is ignored, token compared with the registered path",
                  "D20.4 a stored value of length >= 2 that begins and ends with '\"' is matched without the quotes, any other as it is",
                  "D20.5 rt/if/rel are split at every SP (no token for the empty value, none after a final SP); others matched whole",
                  "D20.6 with a repeated attribute name the filter looks at the first one the table holds",
                  "D20.7 a resource registered as .well-known/core is not listed",
                  "D20.8 GET with several Uri-Query options: the first one is the search criterion, the others do not restrict the listing"]


def extract(ctx):
    """the cache key of the interleaving theorem is coap_get_query()'s string: its model (C16) computes with the escape tables
    regenerated from the tree (T1), so they are refreshed here as well"""
    import props.C16 as c16
    return c16.extract(ctx)


def harness(ctx):
    return C.build_harness("linkfmt", C.build_libcoap(), wraps=["coap_socket_send"])


def hx(b):
    return b.hex() if b else "-"


# --------------------------------------------------------------------------------------------------------------
# generator
# --------------------------------------------------------------------------------------------------------------
PATHS = [b"", b"a", b"ab", b"abc", b"a/b", b"a b", b"s/temp", b"s/light", b"b", b"x", b".well-known/core", b"/a", b"a*", b"ab/c",
         b"t", b"core", b"r1", b"r2", b"r3", b"r4", b"r5", b"r6", b"r7", b"r8"]
NAMES = [b"rt", b"rt", b"if", b"rel", b"ct", b"title", b"sz", b"x", b"", b"href", b"r", b"rtx", b"i", b"re", b"rel"]
TOKS = [b"a", b"b", b"ab", b"abc", b"ab", b"c", b"cd", b"core.s", b"temp", b"x", b"*", b"a*", b"=", b"a=b", b"/", b"/a", b"\"", b"0", b"40"]


def gen_value(rng):
    c = rng.random()
    if c < 0.08:
        return None                     # attribute without value
    if c < 0.16:
        return b""
    if c < 0.24:
        return rng.choice([b"\"", b"a", b" ", b"*", b"=", b"\"\"", b"\"a", b"a\"", b"\" ", b"\"a b", b"a b\""])
    n = rng.choice([0, 1, 1, 1, 2, 2, 2, 3, 4])    # 0: the empty value, quoted below half of the time (`""`: the length-2 edge of quote stripping)
    sep = rng.choice([b" ", b" ", b" ", b"  "])
    v = sep.join(rng.choice(TOKS) for _ in range(n))
    if rng.random() < 0.1:
        v = rng.choice([b" ", b""]) + v + rng.choice([b" ", b""])
    if rng.random() < 0.5:
        v = b"\"" + v + b"\""
    return v


def gen_table(rng, nres):
    """list of entries ('+', path, flags, [(name, value|None)]) / ('!', path)"""
    ents = []
    paths = rng.sample(PATHS, min(len(PATHS), max(1, nres)))
    for i in range(nres):
        c = rng.random()
        if c < 0.07 and ents:
            ents.append(("!", rng.choice([e[1] for e in ents] + [b"nope"])))
            continue
        p = rng.choice(paths) if rng.random() < 0.15 else paths[i % len(paths)]
        flags = (1 if rng.random() < 0.3 else 0) | (2 if rng.random() < 0.2 else 0) | (4 if rng.random() < 0.5 else 0)
        na = rng.choice([0, 1, 1, 2, 2, 3, 4])
        attrs = [(rng.choice(NAMES), gen_value(rng)) for _ in range(na)]
        ents.append(("+", p, flags, attrs))
    return ents


def enc_table(ents):
    if not ents:
        return "-"
    out = []
    for e in ents:
        if e[0] == "!":
            out.append("!" + hx(e[1]))
        else:
            _, p, f, attrs = e
            a = ";".join(hx(n) + ("" if v is None else "=" + hx(v)) for n, v in attrs) if attrs else "."
            out.append("+%s:%d:%s" % (hx(p), f, a))
    return ",".join(out)


def upper_len(ents):
    """length of the unfiltered listing if nothing were replaced or removed: an upper bound of every listing length"""
    n = 0
    for e in ents:
        if e[0] == "+":
            n += 4 + len(e[1]) + 8 + sum(2 + len(a) + (len(v) if v is not None else 0) for a, v in e[3])
    return n


def unq(v):
    return v[1:-1] if len(v) >= 2 and v[:1] == b"\"" and v[-1:] == b"\"" else v


def gen_filters(rng, ents, k):
    """filters aimed at the table: derived from its paths and values, plus the structural edge cases"""
    fs = ["N", "-"]
    vals, names, paths = [], [], []
    for e in ents:
        if e[0] == "+":
            paths.append(e[1])
            for n, v in e[3]:
                names.append(n)
                if v is not None:
                    vals.append((n, v))
    cands = []
    for _ in range(k):
        c = rng.random()
        if c < 0.25 and paths:
            p = rng.choice(paths)
            pat = rng.choice([p, b"/" + p, p[:rng.randint(0, len(p))] + b"*", b"/" + p[:rng.randint(0, len(p))] + b"*", p + b"x", b"/", b"/*", b"*", b""])
            cands.append(b"href=" + pat)
        elif c < 0.85 and vals:
            n, v = rng.choice(vals)
            if rng.random() < 0.15:
                n = rng.choice(NAMES)
            u = unq(v)
            toks = u.split(b" ")
            t = rng.choice(toks)
            i = rng.randint(0, len(u))
            j = rng.randint(i, len(u))
            pat = rng.choice([t, t + b"*", t[:rng.randint(0, len(t))] + b"*", u, u + b"*", u[i:j], u[i:j] + b"*", u[:j] + b"*", t + b"x",
                              t + b"x*", t + b" *", t + b" ", b" " + t, v, v + b"*", b"", b"*", b"**", t + b"**", u[:j], u[i:] + b"*",
                              u + b" *", u + b"a", u[i:] + b"ab*", t + b"a*", t + rng.choice(TOKS) + b"*"])
            cands.append(n + b"=" + pat)
        else:
            cands.append(rng.choice([b"rt", b"=", b"=a", b"rt=", b"rt=*", b"href", b"href=", b"a", b"x=", b"if=*", b"rel=a", b"ct=40", b"ct=4*",
                                     b"rt=a=b", b"title=\"a\"", b"rt= ", b"rt= *", b"rt=a b", b"rt=a b*", b"hre=a", b"hreff=a", b"rtx=a",
                                     b"r=a", b"rel=*", b"if=", b"rt=\"", b"rt=\"*"]))
    seen = set()
    for f in cands:
        if f not in seen:
            seen.add(f)
            fs.append(hx(f))
    return fs


def spec_lengths(pairs):
    """exact listing length of every (table, filter) from the specification S (the Lean driver's `body` op);
    falls back to None when the driver is not available"""
    drv = C.driver_path()
    if not os.path.exists(drv) or not pairs:
        return [None] * len(pairs)
    lines = ["body %s %s" % p for p in pairs]
    try:
        outs = C.run_sharded([drv], lines, per_line_crash="model-crash")
    except Exception:
        return [None] * len(pairs)
    res = []
    for o in outs:
        if o and " | S " in o:
            s = o.split(" | S ", 1)[1].strip()
            res.append(0 if s == "-" else len(s) // 2)
        else:
            res.append(None)
    return res


def windows_for(rng, L, full_limit):
    """all (offset, buflen) in [0, L+2]^2 if L <= full_limit; otherwise complete rows/columns at the edges plus a random sample"""
    m = L + 2
    big = [(4294967295, 0), (4294967295, 4), (0, L + 1000), (1, L + 1000)]
    if L <= full_limit:
        return [(o, n) for o in range(m + 1) for n in range(m + 1)] + big
    ws = set()
    for o in (0, 1, L - 1, L, L + 1, rng.randint(0, L), rng.randint(0, L)):
        for n in range(m + 1):
            ws.add((o, n))
    for n in (0, 1, 2, 16, 32, 64, L - 1, L, L + 1, rng.randint(0, L), rng.randint(0, L)):
        for o in range(m + 1):
            ws.add((o, n))
    for _ in range(200):
        ws.add((rng.randint(0, m), rng.randint(0, m)))
    return sorted(ws) + big


def pack(table, flt, ws, per=192):
    out = []
    for i in range(0, len(ws), per):
        out.append("wk %s %s %s" % (table, flt, ",".join("%d/%d" % w for w in ws[i:i + per])))
    return out


def getx_lines(rng, n):
    """interleaved block-wise GETs: 2-3 transfers with different (sometimes equal) Uri-Query options, incl. none, on one or
    two sessions; the order string says whose next block request is sent; unfinished transfers are completed afterwards"""
    out = []
    while len(out) < n:
        nres = rng.choice([2, 3, 3, 4, 5, 6, 8])
        ents = [e for e in gen_table(rng, nres) if not (e[0] == "+" and e[1] == b".well-known/core")]
        if not ents:
            continue
        t = enc_table(ents)
        fs = gen_filters(rng, ents, 4)            # "N", "-", then table-derived filters (hex)
        nx = rng.choice([2, 2, 3, 3])
        qs = []
        for i in range(nx):
            c = rng.random()
            if c < 0.3 or len(fs) <= 2:
                q = "N"
            else:
                q = rng.choice(fs[2:])
                if len(q) > 2 * 200:
                    q = "N"
                elif rng.random() < 0.1:
                    q = q + "+" + rng.choice(["78", "-", "72743d61"])
            qs.append(q)
        if qs.count("N") == nx and len(fs) > 2:
            qs[rng.randrange(nx)] = fs[2]
        two = rng.random() < 0.3
        xf = "/".join("%d@%s" % ((rng.randint(0, 1) if two else 0), q) for q in qs)
        szx = rng.choice([0, 0, 0, 0, 1, 1, 2])
        ub = upper_len(ents) // (16 << szx) + 2
        c = rng.random()
        if c < 0.35:        # strict round robin
            order = "".join(str(i) for _ in range(ub) for i in range(nx))
        elif c < 0.5:       # first blocks of everybody, then transfer 0 continues (the order of the seeded bug), the rest later
            order = "".join(str(i) for i in range(nx)) + "0" * ub
        elif c < 0.6:       # one after the other
            order = ""
        else:               # random
            order = "".join(str(rng.randrange(nx)) for _ in range(rng.randint(1, ub * nx)))
        out.append("getx %s %d %s:%s" % (t, szx, xf, order[:600]))
    return out


def enc_attr(n, v):
    return hx(n) + ("" if v is None else "=" + hx(v))


def live_lines(rng, n):
    """a live server: ONE context whose table keeps changing between complete block-wise GETs (and listings printed by the
    application).  Most changes are made to resources that ARE registered (coap_add_attr, coap_resource_set_get_observable:
    the set of resources stays, the listing grows or shrinks), the others add / replace / delete resources; most requests are
    unfiltered and repeat an earlier request on the same session, so that anything a server kept from an earlier answer
    (a length, a body, a cache entry) would show."""
    out = []
    while len(out) < n:
        ents = [e for e in gen_table(rng, rng.choice([1, 2, 2, 3, 4, 6])) if not (e[0] == "+" and e[1] == WK)]
        if not any(e[0] == "+" for e in ents):
            continue
        evs = [enc_table([e]) for e in ents]
        live = []                                  # paths registered now, with duplicates removed
        for e in ents:
            if e[0] == "+":
                live = [p for p in live if p != e[1]] + [e[1]]
            else:
                live = [p for p in live if p != e[1]]
        obs = {}
        filters = [f for f in gen_filters(rng, ents, 3)[2:] if len(f) <= 2 * 200]
        szx = rng.choice([0, 0, 0, 1, 1, 2, 3, 6])
        two = rng.random() < 0.25
        if rng.random() < 0.1:                     # sometimes a change comes before the first request
            pass
        else:
            evs.append("g%d%d:N" % (0, szx))
        for _ in range(rng.randint(2, 9)):
            c = rng.random()
            if c < 0.30:                           # describe a resource further (mostly one that is registered)
                p = rng.choice(live) if live and rng.random() < 0.9 else rng.choice(PATHS)
                if p == WK:
                    continue
                evs.append("a%s:%d:%s" % (hx(p), rng.choice([0, 4]), enc_attr(rng.choice(NAMES), gen_value(rng))))
            elif c < 0.42:                         # observable flag of a registered resource
                p = rng.choice(live) if live and rng.random() < 0.9 else rng.choice(PATHS)
                if p == WK:
                    continue
                b = (not obs.get(p, False)) if rng.random() < 0.8 else rng.random() < 0.5
                obs[p] = b
                evs.append("o%s:%d" % (hx(p), 1 if b else 0))
            elif c < 0.50:                         # another / the same resource is registered
                e = [x for x in gen_table(rng, 1) if x[0] == "+" and x[1] != WK]
                if not e:
                    continue
                if live and rng.random() < 0.3:
                    e[0] = ("+", rng.choice(live), e[0][2], e[0][3])
                evs.append(enc_table(e))
                live = [p for p in live if p != e[0][1]] + [e[0][1]]
                obs.pop(e[0][1], None)
            elif c < 0.55 and live:                # a resource goes
                p = rng.choice(live + [b"nope"])
                evs.append("!" + hx(p))
                live = [q for q in live if q != p]
            elif c < 0.62:                         # the application prints the listing itself
                evs.append("p" + (rng.choice(filters) if filters and rng.random() < 0.3 else rng.choice(["N", "N", "-"])))
            else:                                  # a client asks
                q = "N"
                if filters and rng.random() < 0.3:
                    q = rng.choice(filters)
                    if rng.random() < 0.1:
                        q += "+" + rng.choice(["78", "-", "72743d61"])
                z = szx if rng.random() < 0.8 else rng.choice([0, 1, 2, 4, 6])
                evs.append("g%d%d:%s" % (rng.randint(0, 1) if two else 0, z, q))
        if not evs[-1].startswith("g"):
            evs.append("g%d%d:N" % (0, szx))
        out.append("wklive " + "/".join(evs))
    return out


def ev_lines(rng, n):
    """block-level events on ONE context: single Block2 requests of a few transfers (session, SZX, filter, Request-Tag) in any
    order - next block, restart at block 0, a block out of turn, another SZX in mid-transfer -, table changes (attribute added,
    observable flag, resource added / replaced / deleted) and lg_xmit timeouts BETWEEN the blocks of a transfer."""
    out = []
    while len(out) < n:
        ents = [e for e in gen_table(rng, rng.choice([1, 2, 2, 3, 4])) if not (e[0] == "+" and e[1] == WK)]
        if not any(e[0] == "+" for e in ents):
            continue
        evs = [enc_table([e]) for e in ents]
        live = []
        for e in ents:
            if e[0] == "+":
                live = [p for p in live if p != e[1]] + [e[1]]
            else:
                live = [p for p in live if p != e[1]]
        filters = [f for f in gen_filters(rng, ents, 3)[2:] if len(f) <= 2 * 200]
        xs = []
        for _ in range(rng.choice([1, 2, 2, 3])):
            q = "N"
            if filters and rng.random() < 0.35:
                q = rng.choice(filters)
            if xs and rng.random() < 0.3:
                q = xs[0]["q"]                                   # same key as another transfer
            xs.append({"sid": rng.choice([0, 0, 1]), "szx": rng.choice([0, 0, 0, 1, 1, 2]), "q": q,
                       "rt": rng.choice(["N", "N", "N", "01", "02", "0102"]), "next": 0})
        for _ in range(rng.randint(4, 16)):
            c = rng.random()
            if c < 0.62:
                x = rng.choice(xs)
                d = rng.random()
                szx = x["szx"]
                if d < 0.78:
                    num = x["next"]
                elif d < 0.88:
                    num = 0
                elif d < 0.95:
                    num = rng.randint(0, 6)
                else:
                    num = x["next"]; szx = rng.choice([0, 1, 2])
                x["next"] = num + 1
                evs.append("b%d%d:%d:%s:%s" % (x["sid"], szx, num, x["rt"], x["q"]))
            elif c < 0.76:
                p = rng.choice(live) if live and rng.random() < 0.9 else rng.choice(PATHS)
                if p == WK:
                    continue
                evs.append("a%s:%d:%s" % (hx(p), rng.choice([0, 4]), enc_attr(rng.choice(NAMES), gen_value(rng))))
            elif c < 0.82:
                p = rng.choice(live) if live and rng.random() < 0.9 else rng.choice(PATHS)
                if p == WK:
                    continue
                evs.append("o%s:%d" % (hx(p), rng.randint(0, 1)))
            elif c < 0.88:
                e = [x for x in gen_table(rng, 1) if x[0] == "+" and x[1] != WK]
                if not e:
                    continue
                if live and rng.random() < 0.3:
                    e[0] = ("+", rng.choice(live), e[0][2], e[0][3])
                evs.append(enc_table(e))
                live = [p for p in live if p != e[0][1]] + [e[0][1]]
            elif c < 0.92 and live:
                p = rng.choice(live + [b"nope"])
                evs.append("!" + hx(p))
                live = [q for q in live if q != p]
            else:
                evs.append("t%d" % rng.choice([0, 0, 1]))
        out.append("wkev " + "/".join(evs))
    return out


def judge_wkev(c):
    """per block request: a block 0 is the first block of the listing NOW (ETag iff more follows); a response under an ETag
    is that block of the listing AS IT WAS at the block 0 that carried the ETag first (same session); a later block without
    ETag is a block of the listing now; errors only for later blocks"""
    i, s = c["impl"], c["spec"] or ""
    reqs = [e for e in c["input"].split()[1].split("/") if e[:1] == "b"]
    ri, rs = ([] if i == "." else i.split(",")), ([] if s == "." else s.split(","))
    if len(ri) != len(reqs) or len(rs) != len(reqs):
        return ("spec", "implementation %s for %d block requests (specification: %d listings)" % (short(i), len(reqs), len(rs)))
    groups = {}
    for k, (e, a, ls) in enumerate(zip(reqs, ri, rs)):
        f = e[1:].split(":")
        sid, szx, num = int(f[0][0]), int(f[0][1]), int(f[1])
        chunk = 2 * (1 << (szx + 4))                       # hex digits
        now = "" if ls == "-" else ls
        if a.startswith("bad"):
            return ("spec", "block request %d (%s): malformed response %s" % (k, e, a))
        if a.startswith("e"):
            if num == 0:
                return ("spec", "block request %d (%s): a request for block 0 is answered with an error (%s)" % (k, e, a))
            continue
        w = a.split(":")
        pay = "" if w[0] == "-" else w[0]
        if w[2] == "-":
            want, wmore = now[num * chunk:(num + 1) * chunk], (num + 1) * chunk < len(now)
            if num == 0 and len(now) > chunk:
                return ("spec", "block request %d (%s): first block of a longer body without ETag" % (k, e))
            what = "the listing at this moment"
        else:
            if num == 0:
                if w[2] in groups:
                    return ("spec", "block request %d (%s): ETag %s handed out again for a new body" % (k, e, w[2]))
                groups[w[2]] = (sid, now)
            if w[2] not in groups:
                return ("spec", "block request %d (%s): ETag %s was never sent with a block 0" % (k, e, w[2]))
            gs, body = groups[w[2]]
            if gs != sid:
                return ("spec", "block request %d (%s): ETag %s belongs to a transfer of session %d" % (k, e, w[2], gs))
            want, wmore = body[num * chunk:(num + 1) * chunk], (num + 1) * chunk < len(body)
            what = "the listing when block 0 of ETag %s was served" % w[2]
            if num == 0 and not wmore:
                return ("spec", "block request %d (%s): complete body with an ETag of the block layer" % (k, e))
        if pay != want or (w[1] == "1") != wmore:
            return ("spec", "block request %d (%s) yields %s; block %d of %s is %s (M=%d)"
                    % (k, e, short(a), num, what, short(want or "-"), wmore))
    return None


def match_lines(rng, n, exhaustive):
    out = []
    alpha = [b"a", b"b", b" "]

    def strs(maxlen):
        res = [b""]
        layer = [b""]
        for _ in range(maxlen):
            layer = [s + c for s in layer for c in alpha]
            res += layer
        return res
    if exhaustive:
        for t in strs(5):
            for p in strs(3):
                for pfx in (0, 1):
                    for sub in (0, 1):
                        out.append("match %s %s %d %d" % (hx(t), hx(p), pfx, sub))
    else:
        ts, ps = strs(6), strs(4)
        for _ in range(n):
            out.append("match %s %s %d %d" % (hx(rng.choice(ts)), hx(rng.choice(ps)), rng.randint(0, 1), rng.randint(0, 1)))
    return out


def generate(ctx, escalate=False):
    rng = ctx.rng
    thorough = ctx.thorough()
    ntables = 2000 if thorough else 700
    if escalate:
        ntables *= 2
    full_limit = 80 if thorough else 64
    pairs, meta = [], []
    for i in range(ntables):
        nres = rng.choice([0, 1, 1, 1, 2, 2, 2, 3, 3, 4, 5, 6, 8, 10, 12])
        ents = gen_table(rng, nres)
        t = enc_table(ents)
        for f in gen_filters(rng, ents, 3 if nres else 1):
            pairs.append((t, f))
            meta.append(upper_len(ents))
    lens = spec_lengths(pairs)
    out = []
    nfull = nsampled = nwin = 0
    for (t, f), ub, L in zip(pairs, meta, lens):
        if L is None:
            L = ub
        if L <= full_limit:
            nfull += 1
        else:
            nsampled += 1
        ws = windows_for(rng, L, full_limit)
        nwin += len(ws)
        out += pack(t, f, ws)
        out.append("body %s %s" % (t, f))
        # a real block-wise GET through coap_dispatch(): every Block2 size; the filter travels as Uri-Query option(s)
        # (not when the application itself registered .well-known/core: then the request is the application's)
        if (f in ("N", "-") or len(f) <= 2 * 255) and WK_HEX not in t:
            if rng.random() < (1.0 if thorough else 0.5):
                qs = f
                if f not in ("N", "-"):
                    c = rng.random()
                    if c < 0.12:
                        qs = f + "+" + rng.choice(["78", "-", "72743d61", "63743d3430", f])          # further options: ignored (D20.8)
                    elif c < 0.18:
                        qs = rng.choice(["-", "783d", "72743d2a"]) + "+" + f                        # another first option
                for szx in range(7):
                    out.append("get %s %s %d" % (t, qs, szx))
    ctx.cov["exhaustive"] = {"table_filter_pairs_with_all_windows": nfull, "pairs_with_edge_rows_columns_and_sample": nsampled,
                             "full_window_limit": full_limit, "printer_calls": nwin, "tables": ntables}
    out += getx_lines(rng, 2500 if thorough else 400)
    out += live_lines(rng, (4000 if thorough else 700) * (2 if escalate else 1))
    out += ev_lines(rng, (4000 if thorough else 700) * (2 if escalate else 1))
    out += match_lines(rng, 6000, thorough)
    return out


# --------------------------------------------------------------------------------------------------------------
# judge
# --------------------------------------------------------------------------------------------------------------
def judge(ctx, c):
    i, m, s = c["impl"], c["model"], c["spec"]
    op = c["input"].split(" ", 1)[0]
    if i is None or i.startswith("crash"):
        return ("spec", "the implementation aborted (%s): the property demands a listing and no read outside the strings" % i)
    if i == "bad-op" or m == "bad-op":
        return ("tie", "bad-op: impl=%s model=%s" % (i, m))
    if op == "wk":
        if ";" not in i or ";" not in (s or ""):
            return ("spec", "implementation %s, specification %s" % (short(i), short(s)))
        (fi, ri), (fs, rs) = i.split(";", 1), s.split(";", 1)
        if fi != fs:
            return ("spec", "full listing (size probe + full print) %s, specification %s" % (short(fi), short(fs)))
        wi, ws = ri.split(","), rs.split(",")
        args = c["input"].split()[3].split(",")
        if len(wi) != len(ws) or len(wi) != len(args):
            return ("tie", "window count differs: impl %d, spec %d, asked %d" % (len(wi), len(ws), len(args)))
        for a, x, y in zip(args, wi, ws):
            if x == y:
                continue
            fx, fy = x.split(":"), y.split(":")
            if len(fx) != 3 or len(fy) != 3:
                return ("spec", "window %s: implementation %s, listing window %s" % (a, x, y))
            if fx[0] != fy[0]:
                return ("spec", "window %s: bytes written %s, window of the listing %s (=n: the n bytes of the listing %s at that offset)"
                        % (a, fx[0], fy[0], fs[1:]))
            if fx[2] != fy[2]:
                return ("spec", "window %s: reported total %s, listing length %s" % (a, fx[2], fy[2]))
            if fy[1] != "?" and fx[1] != fy[1]:
                return ("spec", "window %s: truncation flag %s, expected %s" % (a, fx[1], fy[1]))
    elif op == "getx":
        xi, xs_ = i.split(","), (s or "").split(",")
        if len(xi) != len(xs_):
            return ("spec", "implementation %s but the specification says %s" % (short(i), short(s)))
        for k, (a, b) in enumerate(zip(xi, xs_)):
            if a != b:
                return ("spec", "transfer %d of the interleaving reassembles to %s (body:responses), its own listing is %s"
                        % (k, short(a), short(b)))
    elif op == "wkev":
        v = judge_wkev(c)
        if v:
            return v
    elif op == "wklive":
        ri, rs = i.split(","), (s or "").split(",")
        if len(ri) != len(rs):
            return ("spec", "implementation %s but the specification says %s" % (short(i), short(s)))
        reqs = [e for e in c["input"].split()[1].split("/") if e[:1] in ("g", "p")]
        for k, (a, b) in enumerate(zip(ri, rs)):
            if a != b:
                return ("spec", "request %d (%s) of the live sequence yields %s (body:responses); the listing of the resources "
                                "registered at that moment is %s" % (k, reqs[k] if k < len(reqs) else "?", short(a), short(b)))
    else:
        if i != s:
            return ("spec", "implementation %s but the specification says %s" % (short(i), short(s)))
    if i != m:
        return ("tie", "implementation %s but model M says %s" % (short(i), short(m)))
    return None


def short(s):
    return s if s is None or len(s) < 200 else s[:190] + "…"


def nontrivial(c):
    s = c["spec"] or ""
    if c["input"].startswith("match"):
        return True
    if c["input"].startswith("wk"):
        return not s.startswith("F-;")
    if c["input"].startswith("getx"):
        return any(not w.startswith("-:") for w in s.split(","))
    if c["input"].startswith("wkev"):
        return ":E0" in (c["model"] or "")                                               # at least one multi-block body
    if c["input"].startswith("wklive"):
        return len(set(w for w in s.split(",") if not w.startswith("-:"))) >= 2      # at least two different non-empty listings
    return s not in ("", "-") and not s.startswith("-:")


def classify(c):
    p = c["input"].split()
    if p[0] == "wk":
        nres = 0 if p[1] == "-" else p[1].count("+")
        return "wk:res=%s:%s" % (nres if nres < 4 else "4+", "nofilter" if p[2] in ("N", "-") else "filter")
    return p[0]


def search(ctx, tie_breaks, proof):
    """a broken proof side or correspondence: look harder with the full generator at another seed position"""
    return generate(ctx, escalate=True)


def shrink_getx(ctx, case):
    """shortest prefix of the order that still fails, then drop table entries"""
    from vlib.runner import diff_side
    import props.C20 as me
    best = case
    p = case["input"].split()
    xf, order = p[3].split(":")
    lines = ["getx %s %s %s:%s" % (p[1], p[2], xf, order[:k]) for k in range(len(order))]
    for cc in diff_side(ctx, me, lines):
        v = judge(ctx, cc)
        if v and v[0] == "spec":
            cc["why"] = v[1]; best = cc
            break
    for _ in range(4):
        p = best["input"].split()
        ents = p[1].split(",")
        if len(ents) <= 1:
            break
        lines = ["getx %s %s %s" % (",".join(ents[:k] + ents[k + 1:]), p[2], p[3]) for k in range(len(ents))]
        hit = None
        for cc in diff_side(ctx, me, lines):
            v = judge(ctx, cc)
            if v and v[0] == "spec":
                cc["why"] = v[1]; hit = cc
                break
        if not hit:
            break
        best = hit
    return best


def shrink_live(ctx, case):
    """drop events (one at a time, repeatedly) while the implementation still contradicts the specification"""
    from vlib.runner import diff_side
    import props.C20 as me
    best = case
    for _ in range(12):
        evs = best["input"].split()[1].split("/")
        if len(evs) <= 1:
            break
        lines = [best["input"].split()[0] + " " + "/".join(evs[:k] + evs[k + 1:]) for k in range(len(evs))]
        hit = None
        for cc in diff_side(ctx, me, lines):
            v = judge(ctx, cc)
            if v and v[0] == "spec":
                cc["why"] = v[1]; hit = cc
                break
        if not hit:
            break
        best = hit
    return best


def shrink(ctx, case):
    """keep one window; then drop table entries / attributes while the implementation still contradicts S"""
    from vlib.runner import diff_side
    import props.C20 as me
    p = case["input"].split()
    if p[0] == "getx":
        return shrink_getx(ctx, case)
    if p[0] in ("wklive", "wkev"):
        return shrink_live(ctx, case)
    if p[0] != "wk":
        return case
    best = case
    # 1. single failing window
    ws = p[3].split(",")
    if len(ws) > 1:
        lines = ["wk %s %s %s" % (p[1], p[2], w) for w in ws]
        for cc in diff_side(ctx, me, lines):
            v = judge(ctx, cc)
            if v and v[0] == "spec":
                cc["why"] = v[1]; best = cc
                break
    p = best["input"].split()
    # 2. drop table entries
    for _ in range(4):
        ents = p[1].split(",") if p[1] != "-" else []
        if len(ents) <= 1:
            break
        lines = ["wk %s %s %s" % (",".join(ents[:k] + ents[k + 1:]), p[2], p[3]) for k in range(len(ents))]
        hit = None
        for cc in diff_side(ctx, me, lines):
            v = judge(ctx, cc)
            if v and v[0] == "spec":
                cc["why"] = v[1]; hit = cc
                break
        if not hit:
            break
        best = hit
        p = best["input"].split()
    return best


WK = b".well-known/core"
WK_HEX = WK.hex()
UNESCAPED = set(b"ABCDEFGHIJKLMNOPQRSTUVWXYZabcdefghijklmnopqrstuvwxyz0123456789-._~!$'()*+,;=:@&/?")


def known(ctx, c):
    return None


# ---- T1X: the numerals of this property's models are tied to the current tree.  extract/consts2*.c + a source scan
# rewrite lean/CoapVerif/Generated/Consts2.lean on every check; Props/C20Consts.lean proves `<model numeral> =
# Generated.C2.<name>` (design/T1.md).  A changed macro / struct size / literal breaks one of these named obligations.
LEAN_MODULES = list(LEAN_MODULES) + ["CoapVerif.Props.C20Consts"]
REQUIRED_THEOREMS = list(REQUIRED_THEOREMS) + [
    "statusMax_matches_code",
    "uintMax_matches_code",
    "linkFormat_numbers_matches_code",
]
TRUSTED_BASE = list(TRUSTED_BASE) + ["T1 extractors extract/consts2.c, consts2_net.c, consts2_opt.c and the source scan vlib/tables.py scan_consts2 (Generated/Consts2.lean)"]
_t1x_prev_extract = globals().get("extract")


def extract(ctx):
    from vlib import tables
    return (_t1x_prev_extract(ctx) if _t1x_prev_extract else []) + tables.extract_consts2()
