/* T1 (workstream T1X): macros private to src/coap_net.c (FRAC_BITS, MAX_BITS, the fixed-point images of the default
 * ACK_TIMEOUT / ACK_RANDOM_FACTOR) and coap_calc_timeout() EVALUATED on a session carrying the default transmission
 * parameters for every PRNG byte r = 0..255 (result in ticks).  This TU includes src/coap_net.c of the current tree
 * (found through -I <repo>/src), as extract/optlen.c does with coap_pdu.c.  Output: JSON. */
#include "coap_net.c"
#include <stdio.h>

int main(void) {
  static coap_session_t s0;
  coap_session_t *session = &s0;
  session->ack_timeout = COAP_DEFAULT_ACK_TIMEOUT;
  session->ack_random_factor = COAP_DEFAULT_ACK_RANDOM_FACTOR;
  printf("{\"FRAC_BITS\": %d, \"MAX_BITS\": %d, \"qAckTimeout\": %u, \"qAckRandomFactor\": %u, \"qOne\": %u,\n",
         (int)FRAC_BITS, (int)MAX_BITS, (unsigned)ACK_TIMEOUT, (unsigned)ACK_RANDOM_FACTOR,
         (unsigned)Q(FRAC_BITS, ((coap_fixed_point_t){1,0})));
  printf(" \"calcTimeout\": [");
  for (int r = 0; r < 256; r++)
    printf("%s%u", r ? ", " : "", (unsigned)coap_calc_timeout(session, (unsigned char)r));
  printf("]}\n");
  return 0;
}
