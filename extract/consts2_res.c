/* T1 (workstream T1Y): the static table private to src/coap_resource.c that the Observe key model depends on:
 * cache_ignore_options[] (the options left out of the cache key that identifies an observe relation), as compiled.
 * This TU includes src/coap_resource.c of the current tree. */
#include "coap_resource.c"
#include <stdio.h>

int main(void) {
  size_t n = sizeof(cache_ignore_options) / sizeof(cache_ignore_options[0]);
  printf("{\"cacheIgnoreOptions\": [");
  for (size_t i = 0; i < n; i++)
    printf("%s%u", i ? ", " : "", (unsigned)cache_ignore_options[i]);
  printf("], \"cacheIgnoreCount\": %zu}\n", n);
  return 0;
}
