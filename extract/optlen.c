/* T1 extractor: the per-option length limits that coap_pdu_parse_opt()
 * enforces, obtained by *evaluating* libcoap's own static table functions
 * (this TU includes src/coap_pdu.c of the current tree) over
 *   every message code 0..255  x  every option number 0..65535  x  lengths:
 *   all of 0..1100, 65536..66636 (a 16-bit truncation would alias here),
 *   65700..65804, every 2^k-1, 2^k, 2^k+1 — and, wherever two neighbouring
 *   sampled lengths disagree, bisection inside the gap by further evaluation.
 * Output: canonical JSON (groups of codes with identical tables; per table the
 * rows that deviate from the even/odd default; accepted lengths as inclusive
 * intervals, 65804 = longest value the wire format can carry).
 */
#include "coap_pdu.c" /* found through -I <repo>/src */
#include <pthread.h>

#define MAXLEN 65804u
#define MAXIV 8

typedef struct { uint32_t n; uint32_t iv[MAXIV][2]; } row_t;

static int eval(uint8_t code, uint16_t num, uint32_t len) {
  static __thread coap_pdu_t pdu;
  pdu.code = code;
  pdu.max_opt = num;
  /* the expression used by coap_pdu_parse_opt() */
  return COAP_PDU_IS_SIGNALING(&pdu) ? coap_pdu_parse_opt_csm(&pdu, len) : coap_pdu_parse_opt_base(&pdu, len);
}

static uint32_t *samples; static size_t nsamples;
static int cmp_u32(const void *a, const void *b) { uint32_t x = *(const uint32_t *)a, y = *(const uint32_t *)b; return x < y ? -1 : x > y; }

static void make_samples(void) {
  size_t cap = 8192, n = 0; uint32_t *s = malloc(cap * sizeof *s);
  for (uint32_t l = 0; l <= 1100; l++) s[n++] = l;
  for (uint32_t l = 65536; l <= 65536 + 1100 && l <= MAXLEN; l++) s[n++] = l;
  for (uint32_t l = 65700; l <= MAXLEN; l++) s[n++] = l;
  for (int k = 1; k <= 16; k++) { uint32_t p = 1u << k; if (p - 1 <= MAXLEN) s[n++] = p - 1; if (p <= MAXLEN) s[n++] = p; if (p + 1 <= MAXLEN) s[n++] = p + 1; }
  qsort(s, n, sizeof *s, cmp_u32);
  size_t m = 0;
  for (size_t i = 0; i < n; i++) if (m == 0 || s[m - 1] != s[i]) s[m++] = s[i];
  samples = s; nsamples = m;
}

/* first length in (lo,hi] whose verdict differs from verdict(lo); assumes one flip inside the gap */
static uint32_t bisect(uint8_t code, uint16_t num, uint32_t lo, uint32_t hi) {
  int v = eval(code, num, lo);
  while (hi - lo > 1) { uint32_t mid = lo + (hi - lo) / 2; if (eval(code, num, mid) == v) lo = mid; else hi = mid; }
  return hi;
}

static void row_of(uint8_t code, uint16_t num, row_t *r) {
  r->n = 0;
  int in = 0; uint32_t start = 0, prev = 0; int prevv = 0;
  for (size_t i = 0; i < nsamples; i++) {
    uint32_t l = samples[i]; int v = eval(code, num, l) != 0;
    uint32_t flip = l;
    if (i > 0 && v != prevv && l - prev > 1) flip = bisect(code, num, prev, l);
    if (v && !in) { in = 1; start = (i > 0 && v != prevv) ? flip : l; }
    if (!v && in) { in = 0; if (r->n < MAXIV) { r->iv[r->n][0] = start; r->iv[r->n][1] = flip - 1; } r->n++; }
    prev = l; prevv = v;
  }
  if (in) { if (r->n < MAXIV) { r->iv[r->n][0] = start; r->iv[r->n][1] = MAXLEN; } r->n++; }
}

static int row_eq(const row_t *a, const row_t *b) {
  if (a->n != b->n) return 0;
  for (uint32_t i = 0; i < a->n && i < MAXIV; i++) if (a->iv[i][0] != b->iv[i][0] || a->iv[i][1] != b->iv[i][1]) return 0;
  return 1;
}

static char *tables[256];

static void sput_row(char **p, const row_t *r) {
  *p += sprintf(*p, "[");
  for (uint32_t i = 0; i < r->n && i < MAXIV; i++) *p += sprintf(*p, "%s[%u,%u]", i ? "," : "", r->iv[i][0], r->iv[i][1]);
  *p += sprintf(*p, "]");
}

static void table_of(int code) {
  row_t *rows = malloc(65536 * sizeof(row_t));
  for (int num = 0; num < 65536; num++) row_of((uint8_t)code, (uint16_t)num, &rows[num]);
  /* default = the row of the highest even / odd number (65534 / 65535); every deviating number is listed */
  row_t de = rows[65534], dod = rows[65535];
  size_t cap = 1 << 16; char *buf = malloc(cap), *p = buf;
  p += sprintf(p, "{\"rows\":[");
  int first = 1;
  for (int num = 0; num < 65536; num++) {
    const row_t *d = (num % 2) ? &dod : &de;
    if (!row_eq(&rows[num], d)) {
      if ((size_t)(p - buf) + 512 > cap) { size_t o = p - buf; cap *= 2; buf = realloc(buf, cap); p = buf + o; }
      p += sprintf(p, "%s[%d,", first ? "" : ",", num); first = 0;
      sput_row(&p, &rows[num]);
      p += sprintf(p, "]");
    }
  }
  p += sprintf(p, "],\"dfltEven\":"); sput_row(&p, &de);
  p += sprintf(p, ",\"dfltOdd\":"); sput_row(&p, &dod);
  p += sprintf(p, "}");
  tables[code] = buf;
  free(rows);
}

static int next_code = 0; static pthread_mutex_t mu = PTHREAD_MUTEX_INITIALIZER;
static void *worker(void *a) {
  (void)a;
  for (;;) {
    pthread_mutex_lock(&mu); int c = next_code++; pthread_mutex_unlock(&mu);
    if (c >= 256) return NULL;
    table_of(c);
  }
}

int main(void) {
  make_samples();
  int nt = 16; pthread_t th[16];
  for (int i = 0; i < nt; i++) pthread_create(&th[i], NULL, worker, NULL);
  for (int i = 0; i < nt; i++) pthread_join(th[i], NULL);
  /* group codes with identical tables, ordered by first code */
  int done[256] = {0};
  printf("{\"max_len\":%u,\"samples\":%zu,\"groups\":[", MAXLEN, nsamples);
  int firstg = 1;
  for (int c = 0; c < 256; c++) {
    if (done[c]) continue;
    printf("%s{\"codes\":[", firstg ? "" : ","); firstg = 0;
    int firstiv = 1, start = -1;
    for (int d = c; d <= 256; d++) {
      int same = d < 256 && !done[d] && !strcmp(tables[c], tables[d]);
      if (same) { done[d] = 1; if (start < 0) start = d; }
      else if (start >= 0) { printf("%s[%d,%d]", firstiv ? "" : ",", start, d - 1); firstiv = 0; start = -1; }
    }
    printf("],\"table\":%s}", tables[c]);
  }
  printf("]}\n");
  return 0;
}
