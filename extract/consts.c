/* T1: compile-time constants of the current tree that models refer to (printed as JSON). */
#include "coap3/coap_libcoap_build.h"
#include <stdio.h>
int main(void) {
  printf("{\"COAP_DEFAULT_MTU\": %lu, \"COAP_RXBUFFER_SIZE\": %lu, \"COAP_DEFAULT_MAX_PDU_RX_SIZE\": %lu, "
         "\"COAP_PDU_MAX_UDP_HEADER_SIZE\": %lu, \"COAP_PDU_MAX_TCP_HEADER_SIZE\": %lu, \"COAP_MAX_OPT\": %lu, "
         "\"COAP_TOKEN_EXT_MAX\": %lu, \"COAP_DEFAULT_VERSION\": %lu}\n",
         (unsigned long)COAP_DEFAULT_MTU, (unsigned long)COAP_RXBUFFER_SIZE, (unsigned long)COAP_DEFAULT_MAX_PDU_RX_SIZE,
         (unsigned long)COAP_PDU_MAX_UDP_HEADER_SIZE, (unsigned long)COAP_PDU_MAX_TCP_HEADER_SIZE, (unsigned long)COAP_MAX_OPT,
         (unsigned long)COAP_TOKEN_EXT_MAX, (unsigned long)COAP_DEFAULT_VERSION);
  return 0;
}
