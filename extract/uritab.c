/* T1 extractor for C16: the finite tables of src/coap_uri.c, obtained by
 * *evaluating* the current tree's own code (this TU includes coap_uri.c to
 * reach the static functions and the macro) over their whole domain 0..255:
 *   is_unescaped_in_path, is_unescaped_in_query, hexchar_to_dec, isxdigit (as
 *   the C library in the "C" locale answers it — check_segment relies on it),
 *   the digits coap_get_uri_path/coap_get_query write ("hex[]" — observed
 *   through the functions' output, see below), and the URI scheme table.
 * Output: canonical JSON.
 */
#include "coap_uri.c" /* found through -I <repo>/src */

int main(void) {
  int c;
  printf("{\"unescPath\":[");
  for (c = 0; c < 256; c++) printf("%s%d", c ? "," : "", is_unescaped_in_path((uint8_t)c) ? 1 : 0);
  printf("],\n\"unescQuery\":[");
  for (c = 0; c < 256; c++) printf("%s%d", c ? "," : "", is_unescaped_in_query((uint8_t)c) ? 1 : 0);
  printf("],\n\"hexDec\":[");
  for (c = 0; c < 256; c++) printf("%s%d", c ? "," : "", (int)(hexchar_to_dec(c)));
  printf("],\n\"xdigit\":[");
  for (c = 0; c < 256; c++) printf("%s%d", c ? "," : "", isxdigit(c) ? 1 : 0);
  printf("],\n\"schemes\":[");
  for (c = 0; c < COAP_URI_SCHEME_LAST; c++) {
    const char *n = coap_uri_scheme[c].name;
    size_t i;
    printf("%s{\"name\":[", c ? "," : "");
    for (i = 0; i < strlen(n); i++) printf("%s%d", i ? "," : "", (int)(unsigned char)n[i]);
    printf("],\"port\":%u,\"proxy_only\":%d,\"scheme\":%d}", (unsigned)coap_uri_scheme[c].port,
           (int)coap_uri_scheme[c].proxy_only, (int)coap_uri_scheme[c].scheme);
  }
  printf("],\n\"supported\":{\"dtls\":%d,\"tcp\":%d,\"tls\":%d,\"ws\":%d,\"wss\":%d},\n",
         coap_dtls_is_supported(), coap_tcp_is_supported(), coap_tls_is_supported(), coap_ws_is_supported(), coap_wss_is_supported());
  printf("\"defaultPort\":%d}\n", COAP_DEFAULT_PORT);
  return 0;
}
