/* T1 config probe for C13: compiled against the headers the build system generated for the current tree and
 * linked with the libcoap it built.  Prints, as JSON, what that configuration really does:
 *   define       replacement text of COAP_THREAD_SAFE ("" = not defined)
 *   if           is `#if COAP_THREAD_SAFE` taken
 *   rc           is `#if COAP_THREAD_RECURSIVE_CHECK` taken
 *   linked       does the library contain coap_lock_lock_func (pulled in through the API functions' references)
 *   mutex_calls  number of pthread_mutex_lock()/trylock() calls libcoap makes during one coap_prng() call after coap_startup()
 *                (pthread_mutex_lock is --wrap'ped for the objects of libcoap-3.a and this file only)
 *   advertised   coap_threadsafe_is_supported()
 */
#include "coap3/coap_libcoap_build.h"
#include <stdio.h>
#include <pthread.h>

#define STR2(x) #x
#define STR(x) STR2(x)

extern char lk_sym __asm__("coap_lock_lock_func") __attribute__((weak));

static int mutex_calls;
int __real_pthread_mutex_lock(pthread_mutex_t *m);
int __wrap_pthread_mutex_lock(pthread_mutex_t *m) {
  mutex_calls++;
  return __real_pthread_mutex_lock(m);
}

int __real_pthread_mutex_trylock(pthread_mutex_t *m);
int __wrap_pthread_mutex_trylock(pthread_mutex_t *m) {
  mutex_calls++;
  return __real_pthread_mutex_trylock(m);
}

int main(void) {
  unsigned char buf[4];
  int n0;
  const char *def =
#ifdef COAP_THREAD_SAFE
    STR(COAP_THREAD_SAFE);
#else
    "";
#endif
  int iff =
#if COAP_THREAD_SAFE
    1;
#else
    0;
#endif
  int rc =
#if COAP_THREAD_RECURSIVE_CHECK
    1;
#else
    0;
#endif
  coap_startup();
  coap_set_log_level(COAP_LOG_EMERG);
  n0 = mutex_calls;
  coap_prng(buf, sizeof(buf));
  printf("{\"define\": \"%s\", \"if\": %d, \"rc\": %d, \"linked\": %d, \"mutex_calls\": %d, \"advertised\": %d}\n",
         def, iff, rc, &lk_sym != 0, mutex_calls - n0, coap_threadsafe_is_supported() ? 1 : 0);
  return 0;
}
