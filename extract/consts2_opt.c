/* T1 (workstream T1X): macros and the static helper private to src/coap_option.c that the option-filter model
 * depends on: LONG_MASK, SHORT_MASK as compiled, and is_long_option() EVALUATED over 0..65535 (the least number it
 * accepts, and whether it is monotone = a threshold test).  This TU includes src/coap_option.c of the current tree. */
#include "coap_option.c"
#include <stdio.h>

int main(void) {
  long thr = 65536;
  int monotone = 1;
  for (long n = 0; n <= 65535; n++) {
    if (is_long_option((coap_option_num_t)n)) {
      if (thr == 65536)
        thr = n;
    } else if (thr != 65536) {
      monotone = 0;
    }
  }
  /* T1Y: coap_opt_encode_size() EVALUATED over 0..65535 in each argument: the least delta / length that needs one and
   * two extension bytes, and whether the size is monotone in each (= two threshold tests). */
  long d1 = 65536, d2 = 65536, l1 = 65536, l2 = 65536;
  int encMono = 1;
  for (long v = 0; v <= 65535; v++) {
    size_t sd = coap_opt_encode_size((uint16_t)v, 0), sl = coap_opt_encode_size(0, (size_t)v) - (size_t)v;
    if (sd == 2 && d1 == 65536) d1 = v;
    if (sd == 3 && d2 == 65536) d2 = v;
    if (sl == 2 && l1 == 65536) l1 = v;
    if (sl == 3 && l2 == 65536) l2 = v;
    if (sd != (size_t)(1 + (v >= d1) + (v >= d2)) || sl != (size_t)(1 + (v >= l1) + (v >= l2))) encMono = 0;
  }
  printf("{\"optDeltaExt1\": %ld, \"optDeltaExt2\": %ld, \"optLenExt1\": %ld, \"optLenExt2\": %ld, \"optEncodeThresholds\": %d,\n",
         d1, d2, l1, l2, encMono);
  printf(" \"optFilterLongMask\": %u, \"optFilterShortMask\": %u, \"optFilterLongThreshold\": %ld, "
         "\"optFilterLongMonotone\": %d}\n",
         (unsigned)(LONG_MASK), (unsigned)(SHORT_MASK) & 0xffffu, thr, monotone);
  return 0;
}
