/* T1 (workstream T1X): macros and the static helper private to src/coap_option.c that the option-filter model
 * depends on: LONG_MASK, SHORT_MASK as compiled, and is_long_option() EVALUATED over 0..65535 (the least number it
 * accepts, and whether it is monotone = a threshold test).  This TU includes src/coap_option.c of the current tree. */
#include "coap_option.c"
#include <stdio.h>

int main(void) {
  long thr = 65536;
  int monotone = 1;
  for (long n = 0; n <= 65535; n++) {
    if (is_long_option((coap_option_num_t)n)) {
      if (thr == 65536)
        thr = n;
    } else if (thr != 65536) {
      monotone = 0;
    }
  }
  printf("{\"optFilterLongMask\": %u, \"optFilterShortMask\": %u, \"optFilterLongThreshold\": %ld, "
         "\"optFilterLongMonotone\": %d}\n",
         (unsigned)(LONG_MASK), (unsigned)(SHORT_MASK) & 0xffffu, thr, monotone);
  return 0;
}
