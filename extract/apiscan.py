#!/usr/bin/env python3
"""T1 static scan for C13 (DESIGN.md §4 C13, H-thread (c)).

Input: a libcoap build directory (for the list of compiled sources and their flags) and the source tree.
Every compiled .c file is run through `gcc -E -fdirectives-only` with the build's own flags: conditionals are
evaluated for *this* configuration, macros stay unexpanded, so `COAP_API`, `coap_lock_lock(...)`,
`coap_lock_callback*(...)` are still visible.  From the part of the output that belongs to the file itself:

 (a) every `COAP_API` function definition is parsed into a small statement tree (blocks, if/else, loops, switch,
     return) and abstractly interpreted over the lock state {U, L}:
       locks    – it takes the lock with coap_lock_lock(c, <failed>) and <failed> leaves the function
       callsLkd – some `*_lkd(` worker is called with the lock held, none without it
       unlocks  – no `return` and no fall-off-the-end with the lock held, no unlock without lock, no double lock
 (b) every call through an application-supplied function pointer (a struct field or local whose type is one of the
     function-pointer typedefs of the *public* headers) must sit inside the argument list of
     coap_lock_callback / _ret / _release / _ret_release / coap_lock_invert.

 (c) extract/lockbal.py: every function definition is interpreted over the lock depth relative to its entry; the
     functions that release / take the lock themselves (release windows around blocking waits, callback-release
     macros, COAP_API wrappers, coap_new_context) are listed with their balance facts.

     It also lists every function that has code under the lock (entered held, or taking the lock itself) with the number
     of calls it makes there to a lock-taking public API function (`heldfns`; must be 0: library code never calls the API).

Output: JSON {api: [...], callbacks: [...], lockfns: [...], heldfns: [...], files: n, functions_scanned: n}.
"""
import json, os, re, subprocess, sys
from concurrent.futures import ThreadPoolExecutor

KW = {"if", "else", "while", "for", "do", "switch", "return", "goto", "case", "default", "break", "continue", "sizeof"}
CB_MACROS = ("coap_lock_callback", "coap_lock_callback_ret", "coap_lock_callback_release",
             "coap_lock_callback_ret_release", "coap_lock_invert")


def strip_comments_strings(s):
    out = []
    i, n = 0, len(s)
    while i < n:
        c = s[i]
        if s.startswith("/*", i):
            j = s.find("*/", i + 2)
            j = n if j < 0 else j + 2
            out.append(re.sub(r"[^\n]", " ", s[i:j]))
            i = j
        elif s.startswith("//", i):
            j = s.find("\n", i)
            j = n if j < 0 else j
            out.append(" " * (j - i))
            i = j
        elif c == '"' or c == "'":
            j = i + 1
            while j < n and s[j] != c:
                j += 2 if s[j] == "\\" else 1
            out.append(c + " " * (j - i - 1) + c)
            i = j + 1
        else:
            out.append(c)
            i += 1
    return "".join(out)


def compiled_sources(bdir):
    """[(src, flags[])] for the objects of target coap-3, from build.ninja"""
    res = []
    txt = open(os.path.join(bdir, "build.ninja")).read()
    for m in re.finditer(r"^build CMakeFiles/coap-3\.dir/\S+\.o: \S+ (\S+\.c)\b.*\n((?:  .*\n)+)", txt, re.M):
        src, vars_ = m.group(1), m.group(2)
        flags = []
        for key in ("DEFINES", "FLAGS", "INCLUDES"):
            mm = re.search(r"^  %s = (.*)$" % key, vars_, re.M)
            if mm:
                flags += [f.replace('\\"', '"') for f in mm.group(1).split()]
        flags = [f for f in flags if not f.startswith("-fsanitize") and not f.startswith("-W") and f not in ("-g", "-O1", "-O2")]
        res.append((src, flags))
    return res


def preprocess_main(src, flags):
    r = subprocess.run(["gcc", "-E", "-fdirectives-only"] + flags + [src], stdout=subprocess.PIPE, stderr=subprocess.PIPE,
                       text=True, errors="replace")
    if r.returncode != 0:
        raise RuntimeError("gcc -E failed on %s: %s" % (src, r.stderr[-500:]))
    keep, cur = [], None
    real = os.path.realpath(src)
    for line in r.stdout.split("\n"):
        m = re.match(r'# \d+ "([^"]*)"', line)
        if m:
            f = m.group(1)
            cur = os.path.realpath(f) == real if not f.startswith("<") else False
            continue
        if cur and not line.startswith("#"):
            keep.append(line)
    return strip_comments_strings("\n".join(keep))


def match_paren(s, i, open_c="(", close_c=")"):
    """s[i] == open_c; returns index of the matching close"""
    d = 0
    for j in range(i, len(s)):
        if s[j] == open_c:
            d += 1
        elif s[j] == close_c:
            d -= 1
            if d == 0:
                return j
    return -1


def split_args(s):
    """top-level comma split of the text between the parentheses of a macro call"""
    out, d, cur = [], 0, []
    for c in s:
        if c in "([{":
            d += 1
        elif c in ")]}":
            d -= 1
        if c == "," and d == 0:
            out.append("".join(cur)); cur = []
        else:
            cur.append(c)
    out.append("".join(cur))
    return out


# ---------------------------------------------------------------------------
# (a) COAP_API wrappers
# ---------------------------------------------------------------------------
class Scan:
    def __init__(self):
        self.problems = []
        self.locked_lkd = 0
        self.locks = 0
        self.lock_fail_ok = True
        self.detached = 0

    def events(self, text, states):
        """apply the lock events occurring in an expression / simple statement, left to right.
        A state is (lock, ctx): lock in {U, L}; ctx in {?, some, none} = what is known about the object's context
        pointer (`none`: the object belongs to no context, so the call is outside "API use on the same context")."""
        for m in re.finditer(r"\b(coap_lock_lock|coap_lock_unlock|\w+_lkd)\s*\(", text):
            name = m.group(1)
            locks = {l for l, _ in states}
            if name == "coap_lock_lock":
                j = match_paren(text, m.end() - 1)
                args = split_args(text[m.end():j]) if j > 0 else []
                if len(args) < 2 or not re.search(r"\b(return|goto)\b", args[-1]):
                    self.lock_fail_ok = False
                if "L" in locks:
                    self.problems.append("lock while locked")
                self.locks += 1
                states = {("L", c) for _, c in states}
            elif name == "coap_lock_unlock":
                if "U" in locks:
                    self.problems.append("unlock while unlocked")
                states = {("U", c) for _, c in states}
            else:
                for l, c in states:
                    if l == "U" and c == "none":
                        self.detached += 1
                    elif l == "U":
                        self.problems.append("%s called without the lock" % name)
                    else:
                        self.locked_lkd += 1
        return states

    CTX_RX = re.compile(r"^\(\s*(!?)\s*((?:\w+\s*->\s*)*(?:context|ctx|session))\s*\)$")

    def split_ctx(self, cond, states):
        """for `if (X)` / `if (!X)` with X a context/session pointer: (states entering then, states entering else)"""
        m = self.CTX_RX.match(cond.strip())
        if not m:
            return set(states), set(states)
        neg = m.group(1) == "!"
        yes = {(l, "some") for l, c in states if c != "none"}      # pointer non-NULL
        no = {(l, "none") for l, c in states if c != "some"}       # pointer NULL
        return (no, yes) if neg else (yes, no)

    def stmt(self, s, i, states):
        """executes one statement starting at s[i]; returns (next index, out states)"""
        n = len(s)
        while i < n and s[i].isspace():
            i += 1
        if i >= n:
            return n, states
        if s[i] == "{":
            j = match_paren(s, i, "{", "}")
            return j + 1, self.block(s[i + 1:j], states)
        m = re.match(r"(if|while|for|switch)\b\s*\(", s[i:])
        if m:
            kw = m.group(1)
            p = i + m.end() - 1
            q = match_paren(s, p)
            states = self.events(s[p:q + 1], states)
            if kw == "if":
                st_then, st_else = self.split_ctx(s[p:q + 1], states)
                k, out = self.stmt(s, q + 1, st_then)
                m2 = re.match(r"\s*else\b", s[k:])
                if m2:
                    k, out2 = self.stmt(s, k + m2.end(), st_else)
                    return k, out | out2
                return k, out | st_else
            k, out = self.stmt(s, q + 1, set(states))
            if out - states:
                self.problems.append("%s body changes the lock state" % kw)
            return k, out | states
        m = re.match(r"do\b", s[i:])
        if m:
            k, out = self.stmt(s, i + 2, set(states))
            m2 = re.match(r"\s*while\s*\(", s[k:])
            q = match_paren(s, k + m2.end() - 1)
            out = self.events(s[k:q + 1], out)
            k = s.find(";", q) + 1
            return k, out
        m = re.match(r"else\b", s[i:])
        if m:
            self.problems.append("dangling else")
            return i + 4, states
        # simple statement up to ';' at depth 0
        d, j = 0, i
        while j < n:
            if s[j] in "([{":
                d += 1
            elif s[j] in ")]}":
                d -= 1
            elif s[j] == ";" and d == 0:
                break
            j += 1
        text = s[i:j]
        if re.match(r"(case\b[^:]*|default\s*|\w+\s*):(?!:)", text) and not re.match(r"\w+\s*\?", text):
            # label: re-run on the rest after the colon
            c = text.index(":")
            return self.stmt(s, i + c + 1, states)
        if re.match(r"goto\b", text):
            self.problems.append("goto")
        is_ret = re.match(r"return\b", text) is not None
        states = self.events(text, states)
        if is_ret:
            if any(l == "L" for l, _ in states):
                self.problems.append("return with the lock held")
            return j + 1, set()
        return j + 1, states

    def block(self, s, states):
        i = 0
        while i < len(s):
            if not s[i:].strip():
                break
            i, states = self.stmt(s, i, states)
        return states


def scan_api(text, fname):
    res = []
    for m in re.finditer(r"\bCOAP_API\b", text):
        i = text.find("{", m.end())
        semi = text.find(";", m.end())
        if i < 0 or (0 <= semi < i):
            continue        # a declaration
        hdr = text[m.end():i]
        nm = re.search(r"(\w+)\s*\(", hdr)
        if not nm:
            continue
        j = match_paren(text, i, "{", "}")
        body = text[i + 1:j]
        sc = Scan()
        out = sc.block(body, {("U", "?")})
        if any(l == "L" for l, _ in out):
            sc.problems.append("end of function with the lock held")
        unl_bad = [p for p in sc.problems if not p.endswith("without the lock")]
        lkd_bad = [p for p in sc.problems if p.endswith("without the lock")]
        res.append({"file": fname, "name": nm.group(1),
                    "locks": sc.locks > 0 and sc.lock_fail_ok,
                    "callsLkd": sc.locked_lkd > 0 and not lkd_bad,
                    "unlocks": not unl_bad, "detached_calls": sc.detached,
                    "problems": sc.problems})
    return res


# ---------------------------------------------------------------------------
# (b) callback sites
# ---------------------------------------------------------------------------
def public_fnptr_typedefs(repo):
    names = set()
    d = os.path.join(repo, "include", "coap3")
    for f in sorted(os.listdir(d)):
        if not f.endswith(".h") and not f.endswith(".h.in"):
            continue
        if "_internal" in f:
            continue
        s = strip_comments_strings(open(os.path.join(d, f), errors="replace").read())
        for m in re.finditer(r"typedef\s+[^;{}()]*?\(\s*\*\s*(\w+)\s*\)\s*\(", s):
            names.add(m.group(1))
    return names


def fields_of_types(repo, types):
    """names of struct fields (in any header) declared with one of `types`"""
    fields = {}
    d = os.path.join(repo, "include", "coap3")
    rx = re.compile(r"\b(%s)\s+(\w+)\s*(?:\[[^\]]*\])?\s*;" % "|".join(sorted(types)))
    for f in sorted(os.listdir(d)):
        if not f.endswith(".h"):
            continue
        s = strip_comments_strings(open(os.path.join(d, f), errors="replace").read())
        for m in rx.finditer(s):
            fields[m.group(2)] = m.group(1)
    return fields


def enclosing_function(text, pos):
    """name of the function whose body contains pos (top-level brace matching)"""
    best = "?"
    for m in re.finditer(r"^(\w+)\s*\([^;{}]*\)\s*\{", text, re.M):
        if m.start() > pos:
            break
        j = match_paren(text, m.end() - 1, "{", "}")
        if j >= pos:
            best = m.group(1)
    return best


def enclosing_if_cond(text, pos):
    """condition of the innermost `if (...) {` block containing pos ('' if the innermost block is not an if-then)"""
    d = 0
    k = pos
    while k > 0:
        k -= 1
        if text[k] == "}":
            d += 1
        elif text[k] == "{":
            if d == 0:
                break
            d -= 1
    head = text[max(0, k - 300):k].rstrip()
    if not head.endswith(")"):
        return ""
    # find the matching '(' backwards
    d = 0
    for j in range(len(head) - 1, -1, -1):
        if head[j] == ")":
            d += 1
        elif head[j] == "(":
            d -= 1
            if d == 0:
                if re.search(r"\bif\s*$", head[:j]):
                    return head[j:]
                return ""
    return ""


# the callback types the property text enumerates: request, response, NACK, event, ping/pong handlers
LISTED_TYPES = {"coap_method_handler_t", "coap_response_handler_t", "coap_nack_handler_t", "coap_event_handler_t",
                "coap_ping_handler_t", "coap_pong_handler_t"}


def scan_callbacks(text, fname, types, fields, ignore_types):
    sites = []
    # spans of the argument lists of the callback macros
    spans = []
    for m in re.finditer(r"\b(%s)\s*\(" % "|".join(CB_MACROS), text):
        j = match_paren(text, m.end() - 1)
        spans.append((m.end(), j, m.group(1)))
    def wrapped(p):
        for a, b, name in spans:
            if a <= p <= b:
                return name
        return None
    cands = []
    # calls through struct fields:  ->field(   .field(   ->field[idx](
    for m in re.finditer(r"(?:->|\.)\s*(\w+)\s*(\[[^\]]*\])?\s*\(", text):
        f = m.group(1)
        if f in fields and fields[f] not in ignore_types:
            cands.append((m.start(), m.end(), f, fields[f]))
    # locals / parameters of a callback type, called by name
    for m in re.finditer(r"\b(%s)\s+(\w+)\s*[,;=)]" % "|".join(sorted(types)), text):
        ty, var = m.group(1), m.group(2)
        if ty in ignore_types:
            continue
        # scope: to the end of the enclosing top-level function (next line starting with '}')
        end = text.find("\n}", m.end())
        end = len(text) if end < 0 else end
        for c in re.finditer(r"(?<![\w>.])%s\s*\(" % re.escape(var), text[m.end():end]):
            cands.append((m.end() + c.start(), m.end() + c.end(), var, ty))
    seen = set()
    for a, b, name, ty in sorted(cands):
        if a in seen:
            continue
        seen.add(a)
        if "resource_uri_wellknown" in enclosing_if_cond(text, a) and "==" in enclosing_if_cond(text, a):
            continue    # the library's own handler of the pseudo resource /.well-known/core, not an application callback
        # the text of the call expression, from the start of the postfix expression
        k = a
        while k > 0 and (text[k - 1].isalnum() or text[k - 1] in "_->.[]"):
            k -= 1
        callee = re.sub(r"\s+", "", text[k:b - 1])
        w = wrapped(a)
        sites.append({"file": fname, "func": enclosing_function(text, a), "callee": callee,
                      "wrapped": w is not None, "macro": w or "", "type": ty, "listed": ty in LISTED_TYPES})
    return sites


# public function-pointer types that are not "application callbacks invoked by the library on behalf of a context":
IGNORE_TYPES = {
    "coap_log_handler_t",      # logging sink; called from coap_log() at arbitrary points, documented to only consume the text
    "coap_rand_func_t",        # PRNG replacement installed with coap_set_prng()
}


def scan(bdir, repo):
    srcs = compiled_sources(bdir)
    types = public_fnptr_typedefs(repo)
    fields = fields_of_types(repo, types)
    with ThreadPoolExecutor(16) as ex:
        texts = list(ex.map(lambda sf: preprocess_main(*sf), srcs))
    api, cbs = [], []
    for (src, _), text in zip(srcs, texts):
        fname = os.path.basename(src)
        api += scan_api(text, fname)
        cbs += scan_callbacks(text, fname, types, fields, IGNORE_TYPES)
    # (c) lock balance of every function that releases / takes the lock itself (extract/lockbal.py)
    import lockbal
    bad = lockbal.selftest()
    if bad:
        raise RuntimeError("lockbal selftest failed:\n" + "\n".join(bad))
    lb = lockbal.analyse([(os.path.basename(src), text) for (src, _), text in zip(srcs, texts)])
    return {"api": api, "callbacks": cbs, "files": len(srcs), "types": len(types), "fields": sorted(fields),
            "lockfns": lb["functions"], "functions_scanned": lb["scanned"], "needs_lock": lb["needsLock"],
            "heldfns": lb["heldfns"]}


if __name__ == "__main__":
    sys.path.insert(0, os.path.dirname(os.path.abspath(__file__)))
    json.dump(scan(sys.argv[1], sys.argv[2]), sys.stdout, indent=1)
