#!/usr/bin/env python3
"""T1 lock-balance analysis for C13: release / acquire windows INSIDE functions (design/C13.md "T1").

The COAP_API scan of apiscan.py only looks at wrappers.  This pass looks at EVERY function definition of the
compiled sources (same input: `gcc -E -fdirectives-only` text, conditionals evaluated, macros unexpanded) and
abstractly interprets the global lock's depth *relative to the function's entry* along all paths:

     0  as on entry            -1  released below the entry level (a release window of a function entered with
    +1  taken above the entry      the lock held: coap_lock_unlock(c); <blocking wait>; coap_lock_lock(c, …);)
        level (a function entered unlocked that takes the lock itself: COAP_API wrappers, coap_new_context, …)

Events:  coap_lock_unlock(c): d-1;  coap_lock_lock(c, failed): d+1 (MODEL DECISION A2: coap_started = 1, so the
`failed` action is dead code — it is only required to LEAVE the function: return / goto / assert(0) / abort());
coap_lock_callback_release / _ret_release / coap_lock_invert: net 0, need the lock (d >= 0);
coap_lock_callback / _ret / coap_lock_check_locked: need the lock.  Calls are transparent: every function is required
to be balanced itself (exit depth = entry depth on all paths), so an imbalance is reported once, at its root, and the
callers of an unbalanced function are only listed (`callsUnbalanced`).

The function body is parsed into a statement tree (blocks, if/else, while/for/do, loop-like macros such as
LL_FOREACH(...) { }, switch/case, break/continue/return/goto/labels) and executed over SETS of abstract states
(depth, facts) — facts remember the outcome of simple pointer / flag tests (`if (context)`), so that
`if (c) lock; …; if (c) unlock;` is followed path-sensitively.  Loops are iterated to a fixpoint (the domain is
finite; at least two passes), backward gotos by re-running the function until the label inputs are stable.

Reported per function (`problems`, each with the path = the lock events and branches since the depth left 0):
  exit      a `return` / the end of the function reached with depth != 0
  loop      a loop back-edge whose depth is not one of the depths the loop was entered with
  fail      a coap_lock_lock / callback-release failure action that does not leave the function
  order     unlock while released, lock while taken, lock in a function entered held, both kinds of window mixed,
            a callback macro / coap_lock_check_locked inside a release window
  touch     inside a release window: a call of a function that needs the lock (`*_lkd`, functions that assert /
            release it at their entry depth, static functions only called with the lock held) or a dereference of
            the context the window was opened on (`ctx->field`), except fields that are immutable after
            coap_new_context() (IMMUTABLE_CTX_FIELDS), or that context passed to a function

  reenter   (held_functions(), reported per function in `heldfns`) a function that holds the lock — it is entered held
            (`*_lkd`, asserts / releases the lock at entry depth, or reached by direct calls from such code) or has taken
            it itself — calls a function that takes the lock at its own entry level (a COAP_API wrapper,
            coap_new_context): in library code in_callback is 0, so that coap_lock_lock() self-deadlocks

`python3 lockbal.py --selftest` runs the analysis over small synthetic functions (SELFTEST below); props/C13.py runs it
before every scan.
"""
import json, os, re, sys

sys.path.insert(0, os.path.dirname(os.path.abspath(__file__)))
from apiscan import match_paren, split_args  # noqa: E402

KW = {"if", "else", "while", "for", "do", "switch", "return", "goto", "case", "default", "break", "continue", "sizeof",
      "defined", "__attribute__", "__typeof__", "typeof", "_Static_assert", "__extension__", "__builtin_offsetof"}
REL_MACROS = ("coap_lock_callback_release", "coap_lock_callback_ret_release", "coap_lock_invert")
KEEP_MACROS = ("coap_lock_callback", "coap_lock_callback_ret")
LOCK_WORDS = ("coap_lock_lock", "coap_lock_unlock") + REL_MACROS
# context fields read inside the release window around the blocking wait that are written only by coap_new_context()
# (before the context is visible to any other thread) and coap_free_context() (SPEC DECISION D17)
IMMUTABLE_CTX_FIELDS = {"epfd"}
LEAVES_RX = re.compile(r"\b(return|goto)\b|\bassert\s*\(\s*0\s*\)|\babort\s*\(")
MAXTRACE = 14


def squeeze(t, n=60):
    t = re.sub(r"\s+", " ", t).strip()
    return t if len(t) <= n else t[:n - 3] + "..."


# ---------------------------------------------------------------------------------------------- function definitions
def functions(text):
    """[(name, header, body)] for every function definition at file level"""
    out = []
    i, n = 0, len(text)
    last_end = 0
    while True:
        i = text.find("{", i)
        if i < 0:
            break
        j = match_paren(text, i, "{", "}")
        if j < 0:
            break
        k = i - 1
        while k >= 0 and text[k].isspace():
            k -= 1
        name = None
        if k >= 0 and text[k] == ")":
            # matching '(' backwards
            d = 0
            p = k
            while p >= 0:
                if text[p] == ")":
                    d += 1
                elif text[p] == "(":
                    d -= 1
                    if d == 0:
                        break
                p -= 1
            m = re.search(r"(\w+)\s*$", text[max(last_end, p - 200):p]) if p > 0 else None
            if m and m.group(1) not in KW and not m.group(1)[0].isdigit():
                name = m.group(1)
                hs = max(text.rfind(";", last_end, p), text.rfind("}", last_end, p), last_end - 1) + 1
                out.append((name, text[hs:i], text[i + 1:j]))
        last_end = j + 1
        i = j + 1
    return out


# ---------------------------------------------------------------------------------------------- statement parser
class Parser:
    """text of a function body -> statement tree.  Nodes are tuples:
       ('block', [n]) ('if', cond, then, else|None) ('loop', kind, init, cond, step, body)  kind: while|for|do|macro
       ('switch', cond, body) ('return', text, ordinal) ('break',) ('continue',) ('goto', label) ('label', name)
       ('case', text) ('simple', text)"""

    def __init__(self, s):
        self.s = s
        self.nret = 0

    def block(self, a, b):
        """statements of s[a:b]"""
        out = []
        i = a
        while True:
            while i < b and self.s[i].isspace():
                i += 1
            if i >= b:
                break
            node, i = self.stmt(i, b)
            if node is not None:
                out.append(node)
        return ("block", out)

    def simple_end(self, i, b):
        d, j = 0, i
        s = self.s
        while j < b:
            c = s[j]
            if c in "([{":
                d += 1
            elif c in ")]}":
                d -= 1
            elif c == ";" and d == 0:
                return j
            j += 1
        return b

    def stmt(self, i, b):
        s = self.s
        while i < b and s[i].isspace():
            i += 1
        if i >= b:
            return None, b
        if s[i] == ";":
            return None, i + 1
        if s[i] == "{":
            j = match_paren(s, i, "{", "}")
            if j < 0 or j > b:
                j = b
            return self.block(i + 1, j), j + 1
        m = re.compile(r"(if|while|for|switch)\b\s*\(").match(s, i, b)
        if m:
            kw = m.group(1)
            p = m.end() - 1
            q = match_paren(s, p)
            cond = s[p + 1:q]
            body, k = self.stmt(q + 1, b)
            body = body or ("block", [])
            if kw == "if":
                m2 = re.compile(r"\s*else\b").match(s, k, b)
                if m2:
                    els, k = self.stmt(m2.end(), b)
                    return ("if", cond, body, els or ("block", [])), k
                return ("if", cond, body, None), k
            if kw == "while":
                return ("loop", "while", "", cond, "", body), k
            if kw == "for":
                parts = []
                d, cur = 0, []
                for c in cond:
                    if c in "([{":
                        d += 1
                    elif c in ")]}":
                        d -= 1
                    if c == ";" and d == 0:
                        parts.append("".join(cur)); cur = []
                    else:
                        cur.append(c)
                parts.append("".join(cur))
                while len(parts) < 3:
                    parts.append("")
                return ("loop", "for", parts[0], parts[1], parts[2], body), k
            return ("switch", cond, body), k
        m = re.compile(r"do\b").match(s, i, b)
        if m:
            body, k = self.stmt(m.end(), b)
            m2 = re.compile(r"\s*while\s*\(").match(s, k, b)
            if not m2:
                return ("simple", "do ?"), k
            q = match_paren(s, m2.end() - 1)
            e = s.find(";", q)
            return ("loop", "do", "", s[m2.end():q], "", body or ("block", [])), (e + 1 if e >= 0 else b)
        m = re.compile(r"else\b").match(s, i, b)
        if m:      # cannot happen after a well-formed if
            return ("simple", "else ?"), m.end()
        # labels
        m = re.compile(r"(case\b[^:;{}?]*|default\s*):(?!:)").match(s, i, b)
        if m:
            return ("case", squeeze(m.group(1))), m.end()
        m = re.compile(r"(\w+)\s*:(?!:)").match(s, i, b)
        if m and m.group(1) not in KW:
            return ("label", m.group(1)), m.end()
        # loop-like macro: IDENT(...) followed by a statement instead of ';' / an operator
        m = re.compile(r"([A-Za-z_]\w*)\s*\(").match(s, i, b)
        if m and m.group(1) not in KW:
            q = match_paren(s, m.end() - 1)
            if 0 < q < b:
                k = q + 1
                while k < b and s[k].isspace():
                    k += 1
                if k < b and (s[k] == "{" or s[k].isalpha() or s[k] == "_") and re.search(r"[A-Z]", m.group(1)):
                    body, k2 = self.stmt(k, b)
                    return ("loop", "macro", "", s[m.end() - 1:q + 1], "", body or ("block", [])), k2
        j = self.simple_end(i, b)
        text = s[i:j]
        m = re.match(r"(return|break|continue|goto)\b", text)
        if m:
            kw = m.group(1)
            if kw == "return":
                self.nret += 1
                return ("return", text, self.nret), j + 1
            if kw == "goto":
                return ("goto", text[4:].strip()), j + 1
            return (kw,), j + 1
        return ("simple", text), j + 1


# ---------------------------------------------------------------------------------------------- abstract interpreter
def norm(e):
    return re.sub(r"\s+", "", e)


FACT_RX = re.compile(r"^\s*(!?)\s*((?:\w+\s*(?:->|\.)\s*)*\w+)\s*$")
FACT_CMP_RX = re.compile(r"^\s*((?:\w+\s*(?:->|\.)\s*)*\w+)\s*(==|!=)\s*(NULL|0)\s*$")


class Interp:
    """states: dict  (depth, facts frozenset((expr, bool)))  ->  trace (tuple of str: the path since depth left 0)"""

    def __init__(self, name, summaries, needs_lock):
        self.name = name
        self.summaries = summaries       # callee -> set of exit depths (only non-neutral ones)
        self.needs_lock = needs_lock     # names of functions that must be entered with the lock held (phase 2)
        self.label_in = {}
        self.reset()

    def reset(self):
        self.problems = {}               # (kind, text) -> path
        self.exits = {}                  # depth -> trace
        self.ctl = []                    # stack of ("loop", brk, cont) / ("switch", brk, entry states)
        self.calls = []                  # (callee, depth)
        self.call_sites = {}             # (callee, ordinal of the call site among the calls of callee, depth) -> path
        self.n_unlock = self.n_lock = self.n_rel = self.n_keep = self.n_check = 0
        self.windows = set()             # ordinals of unlock sites at depth 0 / lock sites at depth 0
        self.used_release = self.used_acquire = False
        self.needs_held = False          # check_locked / callback macro / unlock at depth 0
        self.win_ctx = None
        self.ev_ord = {}

    def problem(self, kind, text, trace):
        self.problems.setdefault((kind, text), trace)

    @staticmethod
    def add(dst, st, trace):
        if st not in dst:
            dst[st] = trace

    @staticmethod
    def merge(*ds):
        out = {}
        for d in ds:
            for k, v in d.items():
                if k not in out:
                    out[k] = v
        return Interp.normalise(out)

    @staticmethod
    def normalise(states):
        """facts are only kept while they discriminate between different depths"""
        depths = {d for d, _ in states}
        if len(depths) <= 1:
            out = {}
            for (d, _), tr in states.items():
                if (d, frozenset()) not in out:
                    out[(d, frozenset())] = tr
            return out
        return states

    @staticmethod
    def ext(trace, what):
        if len(trace) >= MAXTRACE:
            return trace if trace and trace[-1] == "..." else trace + ("...",)
        return trace + (what,)

    def shift(self, states, delta, what):
        out = {}
        for (d, f), tr in states.items():
            nd = d + delta
            tr2 = self.ext(tr, what)
            if nd < -1:
                self.problem("order", "%s while already released" % what, tr2)
                nd = -1
            if nd > 1:
                self.problem("order", "%s while already taken by this function" % what, tr2)
                nd = 1
            if d == 0 and delta < 0:
                self.used_release = True
            if d == 0 and delta > 0:
                self.used_acquire = True
            if nd == 0:
                tr2 = ()
            self.add(out, (nd, f), tr2)
        return out

    def ordinal(self, kind, pos):
        k = (kind, pos)
        if k not in self.ev_ord:
            self.ev_ord[k] = 1 + sum(1 for (kk, _) in self.ev_ord if kk == kind)
        return self.ev_ord[k]

    def events(self, text, states):
        """apply, left to right, the lock events / calls / context dereferences of an expression"""
        if not states or not text:
            return states
        self.kill_facts(text, states)
        pos = 0
        rx = re.compile(r"\b([A-Za-z_]\w*)\s*\(|((?:\b\w+\s*->\s*)+)(\w+)")
        while True:
            m = rx.search(text, pos)
            if not m:
                break
            pos = m.end()
            if m.group(1) is None:
                # a dereference chain  a->b->c
                if any(d < 0 for d, _ in states) and self.win_ctx:
                    chain = norm(m.group(2))[:-2].split("->") + [m.group(3)]
                    wc = self.win_ctx.split("->")
                    if chain[:len(wc)] == wc and len(chain) > len(wc) and chain[len(wc)] not in IMMUTABLE_CTX_FIELDS:
                        for (d, f), tr in states.items():
                            if d < 0:
                                self.problem("touch", "%s->%s dereferenced inside the release window" % (self.win_ctx, chain[len(wc)]), tr)
                continue
            name = m.group(1)
            if name in KW:
                continue
            p = m.end() - 1
            q = match_paren(text, p)
            if q < 0:
                q = len(text) - 1
            args = split_args(text[p + 1:q])
            if name == "coap_lock_unlock":
                self.n_unlock += 1
                o = self.ordinal("unlock", (id(text), m.start()))
                if any(d == 0 for d, _ in states):
                    self.windows.add(("u", o))
                    self.needs_held = True
                self.win_ctx = norm(args[0]) if args else None
                states = self.shift(states, -1, "coap_lock_unlock(%s)#%d" % (squeeze(args[0] if args else "", 24), o))
                pos = q + 1
            elif name == "coap_lock_lock":
                self.n_lock += 1
                o = self.ordinal("lock", (id(text), m.start()))
                what = "coap_lock_lock(%s)#%d" % (squeeze(args[0] if args else "", 24), o)
                if len(args) < 2 or not LEAVES_RX.search(args[-1]):
                    self.problem("fail", "%s: the failure action `%s` does not leave the function" % (what, squeeze(args[-1] if args else "", 40)), ())
                if any(d == 0 for d, _ in states):
                    self.windows.add(("l", o))
                states = self.shift(states, +1, what)
                pos = q + 1
            elif name in REL_MACROS:
                self.n_rel += 1
                o = self.ordinal("rel", (id(text), m.start()))
                carg = args[1] if name == "coap_lock_callback_ret_release" and len(args) > 1 else args[0] if args else ""
                what = "%s(%s)#%d" % (name, squeeze(carg, 24), o)
                if len(args) < 3 or not LEAVES_RX.search(args[-1]):
                    self.problem("fail", "%s: the failure action `%s` does not leave the function" % (what, squeeze(args[-1] if args else "", 40)), ())
                for (d, f), tr in states.items():
                    if d < 0:
                        self.problem("order", "%s inside a release window" % what, tr)
                    elif d == 0:
                        self.needs_held = True
                self.windows.add(("r", o))
                pos = q + 1       # the callback expression itself is application code
            elif name in KEEP_MACROS or name == "coap_lock_check_locked":
                if name in KEEP_MACROS:
                    self.n_keep += 1
                else:
                    self.n_check += 1
                for (d, f), tr in states.items():
                    if d < 0:
                        self.problem("order", "%s inside a release window" % name, tr)
                    elif d == 0:
                        self.needs_held = True
                pos = q + 1
            else:
                passes = self.win_ctx is not None and any(norm(a) == self.win_ctx for a in args)
                co = self.ordinal("call:" + name, (id(text), m.start()))
                for (d, f), tr in states.items():
                    self.calls.append((name, d))
                    self.call_sites.setdefault((name, co, d), tr)
                    if d < 0 and (name.endswith("_lkd") or name in self.needs_lock):
                        self.problem("touch", "%s() (needs the lock) called inside the release window" % name, tr)
                    elif d < 0 and passes:
                        self.problem("touch", "%s passed to %s() inside the release window" % (self.win_ctx, name), tr)
                # arguments are scanned too (pos stays just behind the opening parenthesis)
        return states

    def kill_facts(self, text, states):
        keys = {k for _, f in states for k, _ in f}
        if not keys:
            return
        dead = set()
        for k in keys:
            root = re.split(r"->|\.", k)[0]
            if re.search(r"(?<![\w>.])%s\s*(=(?!=)|\+\+|--|[-+|&^]=)" % re.escape(k), norm(text)) or \
               re.search(r"(?<![\w>.])%s\s*(=(?!=))" % re.escape(root), norm(text)) or re.search(r"&\s*%s\b" % re.escape(root), text):
                dead.add(k)
        if dead:
            new = {}
            for (d, f), tr in states.items():
                self.add(new, (d, frozenset(x for x in f if x[0] not in dead)), tr)
            states.clear()
            states.update(new)

    def split(self, cond, states):
        """(states entering the then-branch, states entering the else-branch)"""
        key = val = None
        m = FACT_RX.match(cond)
        if m:
            key, val = norm(m.group(2)), m.group(1) != "!"
        else:
            m = FACT_CMP_RX.match(cond)
            if m:
                key, val = norm(m.group(1)), m.group(2) == "!="
        if key is None or key in ("0", "1"):
            return dict(states), dict(states)
        yes, no = {}, {}
        for (d, f), tr in states.items():
            known = dict(f).get(key)
            if known is None or known == val:
                self.add(yes, (d, f | {(key, val)}), tr)
            if known is None or known != val:
                self.add(no, (d, f | {(key, not val)}), tr)
        return yes, no

    @staticmethod
    def always(cond):
        return norm(cond) in ("", "1", "true", "(1)")

    def tr_all(self, states, what):
        """extend the traces of the states that are away from the entry depth"""
        return {k: (self.ext(tr, what) if k[0] != 0 else tr) for k, tr in states.items()}

    def exec(self, node, states):
        kind = node[0]
        if kind == "block":
            for n in node[1]:
                states = self.exec(n, states)
            return states
        if kind == "simple":
            return self.events(node[1], states)
        if kind == "if":
            states = self.events(node[1], states)
            yes, no = self.split(node[1], states)
            c = squeeze(node[1], 40)
            o1 = self.exec(node[2], self.tr_all(yes, "if (%s)" % c))
            no = self.tr_all(no, "if !(%s)" % c)
            o2 = self.exec(node[3], no) if node[3] is not None else no
            return self.merge(o1, o2)
        if kind == "return":
            states = self.events(node[1], states)
            for (d, f), tr in states.items():
                if d not in self.exits:
                    self.exits[d] = tr
                if d != 0:
                    self.problem("exit", "return #%d `%s` with the lock %s" % (node[2], squeeze(node[1], 40), self.word(d)),
                                 self.ext(tr, squeeze(node[1], 40)))
            return {}
        if kind == "break":
            if self.ctl:
                for k, v in self.tr_all(states, "break").items():
                    self.add(self.ctl[-1][1], k, v)
            return {}
        if kind == "continue":
            for c in reversed(self.ctl):
                if c[0] == "loop":
                    for k, v in self.tr_all(states, "continue").items():
                        self.add(c[2], k, v)
                    break
            return {}
        if kind == "goto":
            tgt = self.label_in.setdefault(node[1], {})
            for k, v in self.tr_all(states, "goto " + node[1]).items():
                self.add(tgt, (k[0], frozenset()), v)
            return {}
        if kind == "label":
            return self.merge(states, self.label_in.get(node[1], {}))
        if kind == "case":
            for c in reversed(self.ctl):
                if c[0] == "switch":
                    return self.merge(states, self.tr_all(c[2], node[1]))
            return states
        if kind == "switch":
            states = self.events(node[1], states)
            brk = {}
            self.ctl.append(("switch", brk, dict(states)))
            has_default = self.has_default(node[2])
            out = self.exec(node[2], {})
            self.ctl.pop()
            res = self.merge(out, brk, {} if has_default else states)
            return res
        if kind == "loop":
            _, lk, init, cond, step, body = node
            states = self.events(init, states)
            entry_depths = {d for d, _ in states}
            head = dict(states)
            c = squeeze(cond, 40)
            for _ in range(6):
                brk, cont = {}, {}
                self.ctl.append(("loop", brk, cont))
                if lk == "do":
                    out = self.exec(body, dict(head))
                    after = self.events(cond, self.merge(out, cont))
                    back = after
                    natural = after
                else:
                    s_cond = self.events(cond, dict(head))
                    natural = s_cond
                    out = self.exec(body, self.tr_all(s_cond, "%s (%s)" % ("loop" if lk == "macro" else lk, c)))
                    back = self.events(step, self.merge(out, cont))
                self.ctl.pop()
                new_head = dict(head)
                for k, v in back.items():
                    self.add(new_head, (k[0], frozenset()) if k not in new_head else k, v)
                if set(new_head) == set(head):
                    break
                head = new_head
            for (d, f), tr in back.items():
                if d not in entry_depths:
                    self.problem("loop", "back-edge of `%s (%s)` with the lock %s (loop entered %s)" % (
                        "do…while" if lk == "do" else lk, c, self.word(d), "/".join(self.word(e) for e in sorted(entry_depths)) or "-"),
                        self.ext(tr, "next iteration"))
            exits = {} if (self.always(cond) and lk != "macro") else self.tr_all(natural, "loop ends")
            return self.merge(exits, brk)
        raise AssertionError(kind)

    def has_default(self, node):
        if node[0] == "case":
            return node[1].startswith("default")
        if node[0] == "block":
            return any(self.has_default(n) for n in node[1] if n[0] in ("case", "block"))
        return False

    @staticmethod
    def word(d):
        return {0: "as on entry", -1: "RELEASED (entered held)", 1: "STILL TAKEN (entered unlocked)"}.get(d, str(d))

    def run(self, tree):
        for _ in range(5):
            before = {k: set(v) for k, v in self.label_in.items()}
            self.reset()
            out = self.exec(tree, {(0, frozenset()): ()})
            for (d, f), tr in out.items():
                if d not in self.exits:
                    self.exits[d] = tr
                if d != 0:
                    self.problem("exit", "end of the function with the lock %s" % self.word(d), self.ext(tr, "end of function"))
            if {k: set(v) for k, v in self.label_in.items()} == before:
                break
        if self.used_release and self.used_acquire:
            self.problem("order", "the function both releases below and acquires above its entry level", ())


# ---------------------------------------------------------------------------------------------- driver
def analyse(files):
    """files: [(basename, preprocessed text)] -> list of per-function records (only functions with lock events)"""
    funcs = []
    for fname, text in files:
        for name, header, body in functions(text):
            tree = Parser(body).block(0, len(body))
            funcs.append({"file": fname, "name": name, "tree": tree, "body": body,
                          "static": re.search(r"\bstatic\b", header) is not None,
                          "api": re.search(r"\bCOAP_API\b", header) is not None})
    summaries, needs = {}, set()
    results = {}
    for phase in range(6):
        changed = False
        for fn in funcs:
            key = (fn["file"], fn["name"])
            it = Interp(fn["name"], summaries, needs)
            it.run(fn["tree"])
            results[key] = it
            s = set(it.exits) or {0}
            if s != {0}:
                summaries[fn["name"]] = s
        # functions that must be entered with the lock held: *_lkd, those that assert/release it at entry depth,
        # and (to a fixpoint) static functions all of whose call sites hold it
        new_needs = {fn["name"] for fn in funcs if fn["name"].endswith("_lkd") or
                     (results[(fn["file"], fn["name"])].needs_held and not results[(fn["file"], fn["name"])].used_acquire)}
        callers = {}
        for fn in funcs:
            it = results[(fn["file"], fn["name"])]
            for callee, d in it.calls:
                callers.setdefault(callee, []).append((fn["name"], d, it.used_acquire))
        for _ in range(30):
            grew = False
            for fn in funcs:
                n = fn["name"]
                if n in new_needs or not fn["static"] or n not in callers:
                    continue
                if all((d > 0) or (d == 0 and c in new_needs) for c, d, _ in callers[n]):
                    new_needs.add(n); grew = True
            if not grew:
                break
        if new_needs != needs:
            needs.clear(); needs.update(new_needs)
            changed = True
        if not changed:
            break
    out = []
    for fn in funcs:
        it = results[(fn["file"], fn["name"])]
        calls_unbalanced = sorted({c for c, _ in it.calls if c in summaries and c != fn["name"]})
        if not (it.n_unlock or it.n_lock or it.n_rel or calls_unbalanced):
            continue
        kinds = {k for k, _ in it.problems}
        if fn["api"] and it.used_release:
            it.problem("order", "COAP_API function releases the lock below its entry level", ())
        if fn["name"].endswith("_lkd") and it.used_acquire:
            it.problem("order", "`_lkd` function (entered with the lock held) takes the lock again", ())
        kinds = {k for k, _ in it.problems}
        probs = ["%s: %s%s" % (k, t, (" [path: " + " -> ".join(tr) + "]") if tr else "") for (k, t), tr in sorted(it.problems.items())]
        out.append({"file": fn["file"], "name": fn["name"], "api": fn["api"], "static": fn["static"],
                    "entryHeld": not it.used_acquire and (it.used_release or it.needs_held or fn["name"] in needs),
                    "unlocks": it.n_unlock, "locks": it.n_lock, "cbRelease": it.n_rel,
                    "windows": len(it.windows), "callsUnbalanced": calls_unbalanced,
                    "exitsBalanced": "exit" not in kinds, "loopsBalanced": "loop" not in kinds,
                    "failLeaves": "fail" not in kinds, "ordered": "order" not in kinds, "quiet": "touch" not in kinds,
                    "problems": probs})
    held = held_functions(funcs, results, needs)
    return {"functions": out, "scanned": len(funcs), "needsLock": len(needs), "heldfns": held}


def held_functions(funcs, results, needs):
    """Library code never calls the PUBLIC (lock-taking) API while it holds the lock: in library code in_callback is 0, so
    coap_lock_lock_func() goes for the mutex its own thread already holds (self-deadlock; nested under a lock-keeping
    callback the assert(in_callback == lock_count) fails instead) — theorem C13.lib_api_call_deadlocks_or_faults.

    takers   = functions that take the lock at their own entry level (COAP_API wrappers, coap_new_context)
    mayHeld  = functions that may be entered with the lock held: least set containing `needs` (the `*_lkd` functions and
               those that assert / release the lock at entry depth) and closed under "called at depth > 0, or at depth 0
               from a function of the set" (direct calls only; calls through function pointers are not followed, the
               callback macros' `func` arguments are application code and are skipped)
    One record per function that has code under the lock (mayHeld ∪ takers): the number of call sites it executes with
    the lock held and how many of them call a taker."""
    defined = {fn["name"] for fn in funcs}
    res = {fn["name"]: [] for fn in funcs}
    for fn in funcs:
        res[fn["name"]].append(results[(fn["file"], fn["name"])])
    takers = {fn["name"] for fn in funcs if results[(fn["file"], fn["name"])].used_acquire}
    may = {n: None for n in defined if n in needs or n.endswith("_lkd")}      # name -> (caller, depth) witness
    grew = True
    while grew:
        grew = False
        for fn in funcs:
            it = results[(fn["file"], fn["name"])]
            for (callee, _, d) in it.call_sites:
                if callee in defined and callee not in may and callee not in takers and \
                        (d > 0 or (d == 0 and fn["name"] in may and not it.used_acquire)):
                    may[callee] = (fn["name"], d)
                    grew = True

    def why(name):
        chain, n = [], name
        for _ in range(5):
            w = may.get(n)
            if not w:
                break
            chain.append("%s()%s" % (w[0], " after its coap_lock_lock" if w[1] > 0 else ""))
            n = w[0]
        if not chain:
            return "it is entered with the lock held"
        return "it is called from " + " <- ".join(chain) + (", entered with the lock held" if may.get(n, 0) is None else "")

    out = []
    for fn in funcs:
        it = results[(fn["file"], fn["name"])]
        name = fn["name"]
        entered_held = name in may and not it.used_acquire
        if not entered_held and not it.used_acquire:
            continue
        sites, bad = set(), {}
        for (callee, o, d), tr in sorted(it.call_sites.items()):
            if d > 0 or (d == 0 and entered_held):
                sites.add((callee, o))
                if callee in takers:
                    bad.setdefault((callee, o), (d, tr))
        probs = []
        for (callee, o), (d, tr) in sorted(bad.items()):
            probs.append("reenter: %s() calls the lock-taking public API function %s() (call #%d) while it holds the global lock "
                         "(%s): coap_lock_lock() then waits for the mutex of its own thread%s" % (
                             name, callee, o, ("taken by " + " -> ".join(tr)) if d > 0 and tr else
                             "taken by its own coap_lock_lock" if d > 0 else why(name),
                             ""))
        out.append({"file": fn["file"], "name": name, "api": fn["api"], "entry": "held" if entered_held else "takes",
                    "heldCalls": len(sites), "apiCalls": len(bad), "problems": probs})
    return out


SELFTEST = [
    # (expected problem kinds, source)
    (set(), "int a_lkd(coap_context_t *ctx) { int n; coap_lock_unlock(ctx); n = epoll_wait(ctx->epfd, 0, 0, 0);"
            " coap_lock_lock(ctx, return -1); return n; }"),
    ({"exit"}, "int b_lkd(coap_context_t *ctx) { int n; do { coap_lock_unlock(ctx); n = epoll_wait(ctx->epfd, 0, 0, 0);"
               " if (n < 0) { if (errno == EINTR) { break; } coap_lock_lock(ctx, return -1); break; }"
               " coap_lock_lock(ctx, return -1); } while (n == 9); coap_ticks(&now); return n; }"),
    ({"exit", "loop", "order"}, "int c_lkd(coap_context_t *ctx) { int n; do { coap_lock_unlock(ctx); n = epoll_wait(ctx->epfd, 0, 0, 0);"
               " if (n < 0 && errno == EINTR) continue; coap_lock_lock(ctx, return -1); } while (n == 9); return n; }"),
    ({"loop", "order", "exit"}, "void d_lkd(coap_context_t *ctx) { while (more(x)) { coap_lock_unlock(ctx); wait(); if (again()) continue;"
                                " coap_lock_lock(ctx, return); } }"),
    ({"fail"}, "void e_lkd(coap_context_t *ctx) { coap_lock_unlock(ctx); wait(); coap_lock_lock(ctx, err = 1); }"),
    ({"touch"}, "void f_lkd(coap_context_t *ctx) { coap_lock_unlock(ctx); ctx->sendqueue = NULL; coap_lock_lock(ctx, return); }"),
    ({"touch"}, "void g_lkd(coap_context_t *ctx) { coap_lock_unlock(ctx); coap_send_lkd(s, p); coap_lock_lock(ctx, return); }"),
    ({"touch"}, "void h_lkd(coap_context_t *ctx) { coap_lock_unlock(ctx); coap_expire(ctx); coap_lock_lock(ctx, return); }"),
    (set(), "COAP_API void i(coap_endpoint_t *ep) { if (ep) { coap_context_t *context = ep->context; if (context) {"
            " coap_lock_lock(context, return); } i_lkd(ep); if (context) { coap_lock_unlock(context); } } }"),
    ({"exit"}, "coap_context_t *j(void) { c = m(); coap_lock_lock(c, free(c); return NULL); if (bad(c)) goto onerror;"
               " coap_lock_unlock(c); return c; onerror: free(c); return NULL; }"),
    (set(), "coap_context_t *k(void) { c = m(); coap_lock_lock(c, free(c); return NULL); if (bad(c)) goto onerror;"
            " coap_lock_unlock(c); return c; onerror: coap_lock_unlock(c); free(c); return NULL; }"),
    ({"exit"}, "COAP_API int l(coap_context_t *c, int x) { coap_lock_lock(c, return 0); switch (x) { case 1: return 1;"
               " case 2: break; default: x = 3; } coap_lock_unlock(c); return x; }"),
    (set(), "void m_lkd(coap_context_t *c) { LL_FOREACH(c->list, q) { if (q->h) { coap_lock_callback_release(c, q->h(q),"
            " return); } } for (i = 0; i < 3; i++) { coap_lock_unlock(c); wait(); coap_lock_lock(c, return); } }"),
    ({"order"}, "void n_lkd(coap_context_t *c) { coap_lock_unlock(c); coap_lock_callback(c, c->h(c)); coap_lock_lock(c, return); }"),
    ({"order"}, "void o_lkd(coap_context_t *c) { coap_lock_lock(c, return); o2_lkd(c); coap_lock_unlock(c); }"),
    ({"exit"}, "void p_lkd(coap_context_t *c) { retry: coap_lock_unlock(c); if (wait()) goto out; coap_lock_lock(c, return);"
               " if (again()) goto retry; out: return; }"),
    ({"fail"}, "void q_lkd(coap_context_t *c) { coap_lock_callback_release(c, c->h(c), err = 1); }"),
]


# (expected {function: number of public-API calls made under the lock}, source) — for held_functions()
API = "COAP_API int pub(coap_context_t *c) { int r; coap_lock_lock(c, return 0); r = pub_lkd(c); coap_lock_unlock(c); return r; } "
HELD_SELFTEST = [
    ({"pub": 0, "pub_lkd": 0}, API + "int pub_lkd(coap_context_t *c) { return c->x; }"),
    # a `_lkd` worker calls the public wrapper
    ({"pub": 0, "pub_lkd": 0, "t_lkd": 1}, API + "int pub_lkd(coap_context_t *c) { return 1; } void t_lkd(coap_context_t *c) { if (c->x) pub(c); }"),
    # … through a static helper that is only reached from held code
    ({"pub": 0, "pub_lkd": 0, "u_lkd": 0, "helper": 1}, API + "int pub_lkd(coap_context_t *c) { return 1; } static void helper(coap_context_t *c)"
     " { LL_FOREACH(c->l, q) { if (q->due) { q->mid = pub(c); } } } void u_lkd(coap_context_t *c) { helper(c); }"),
    # a wrapper calls another wrapper after taking the lock
    ({"pub": 0, "pub_lkd": 0, "pub2": 1}, API + "int pub_lkd(coap_context_t *c) { return 1; } COAP_API int pub2(coap_context_t *c)"
     " { coap_lock_lock(c, return 0); pub(c); coap_lock_unlock(c); return 1; }"),
    # … before taking it / after releasing it: fine;  inside a release window: fine;  inside a callback macro's argument: application code
    ({"pub": 0, "pub_lkd": 0, "pub3": 0, "w_lkd": 0}, API + "int pub_lkd(coap_context_t *c) { return 1; } COAP_API int pub3(coap_context_t *c)"
     " { pub(c); coap_lock_lock(c, return 0); pub_lkd(c); coap_lock_unlock(c); return pub(c); }"
     " void w_lkd(coap_context_t *c) { coap_lock_unlock(c); pub(d); coap_lock_lock(c, return); coap_lock_callback(c, c->h(pub(c))); }"),
    # a public convenience function that is not entered held may call the API; the same helper reached under the lock may not
    ({"pub": 0, "pub_lkd": 0}, API + "int pub_lkd(coap_context_t *c) { return 1; } int conv(coap_context_t *c) { return pub(c); }"),
    ({"pub": 0, "pub_lkd": 0, "conv": 1, "v_lkd": 0}, API + "int pub_lkd(coap_context_t *c) { return 1; } int conv(coap_context_t *c) { return pub(c); }"
     " void v_lkd(coap_context_t *c) { conv(c); }"),
]


def selftest():
    bad = []
    for want, src in HELD_SELFTEST:
        got = {f["name"]: f["apiCalls"] for f in analyse([("selftest.c", src)])["heldfns"]}
        if got != want:
            bad.append("held: %s: expected %s got %s" % (src[len(API):len(API) + 60], want, got))
    for want, src in SELFTEST:
        r = analyse([("selftest.c", src)])["functions"]
        got = {p.split(":")[0] for f in r for p in f["problems"]}
        if len(r) != 1 or got != want:
            bad.append("%s: expected %s got %s %s" % (src[:40], sorted(want), sorted(got), [f["problems"] for f in r]))
    return bad


if __name__ == "__main__":
    if sys.argv[1:] == ["--selftest"]:
        b = selftest()
        print("\n".join(b) if b else "selftest ok (%d cases)" % (len(SELFTEST) + len(HELD_SELFTEST)))
        sys.exit(1 if b else 0)
    import apiscan
    from concurrent.futures import ThreadPoolExecutor
    srcs = apiscan.compiled_sources(sys.argv[1])
    with ThreadPoolExecutor(16) as ex:
        texts = list(ex.map(lambda sf: apiscan.preprocess_main(*sf), srcs))
    res = analyse([(os.path.basename(s), t) for (s, _), t in zip(srcs, texts)])
    json.dump(res, sys.stdout, indent=1)
