/* T1 extractor for C09: constants and small pure helper functions of the block-wise code, obtained by compiling
 * against the current tree and EVALUATING them:
 *   COAP_RBLOCK_CNT, option numbers, the Echo reserve of coap_add_data_large_internal,
 *   coap_flsll on 0..300 and on 2^k-1, 2^k, 2^k+1 (k ≤ 62),
 *   coap_opt_encode_size on the delta/length class boundaries,
 *   coap_encode_var_safe length on the byte-count boundaries.
 * Output: JSON. */
#include "coap3/coap_libcoap_build.h"
#include <stdio.h>

int main(void) {
  printf("{\"rblock_cnt\": %d, \"block1\": %d, \"block2\": %d, \"size1\": %d, \"size2\": %d, \"rtag\": %d, \"etag\": %d, \"echo\": %d,\n",
         (int)COAP_RBLOCK_CNT, COAP_OPTION_BLOCK1, COAP_OPTION_BLOCK2, COAP_OPTION_SIZE1, COAP_OPTION_SIZE2, COAP_OPTION_RTAG,
         COAP_OPTION_ETAG, COAP_OPTION_ECHO);
  printf(" \"echo_reserve\": %zu,\n", coap_opt_encode_size(COAP_OPTION_ECHO, 40));
  printf(" \"flsll\": [");
  int first = 1;
  for (long long i = 0; i <= 300; i++) { printf("%s[%lld, %d]", first ? "" : ", ", i, coap_flsll(i)); first = 0; }
  for (int k = 9; k <= 62; k++)
    for (int d = -1; d <= 1; d++) { long long v = (1LL << k) + d; printf(", [%lld, %d]", v, coap_flsll(v)); }
  printf("],\n \"optsize\": [");
  first = 1;
  {
    static const unsigned ds[] = {0, 1, 12, 13, 14, 268, 269, 270, 65535};
    static const unsigned ls[] = {0, 1, 12, 13, 14, 268, 269, 270, 1024, 65535};
    for (unsigned a = 0; a < sizeof(ds) / sizeof(ds[0]); a++)
      for (unsigned b = 0; b < sizeof(ls) / sizeof(ls[0]); b++) {
        printf("%s[%u, %u, %zu]", first ? "" : ", ", ds[a], ls[b], coap_opt_encode_size((uint16_t)ds[a], ls[b]));
        first = 0;
      }
  }
  printf("],\n \"varlen\": [");
  first = 1;
  {
    static const unsigned vs[] = {0, 1, 255, 256, 257, 65535, 65536, 65537, 16777215, 16777216, 16777217, 4294967295u};
    uint8_t buf[8];
    for (unsigned a = 0; a < sizeof(vs) / sizeof(vs[0]); a++) {
      printf("%s[%u, %u]", first ? "" : ", ", vs[a], coap_encode_var_safe(buf, sizeof(buf), vs[a]));
      first = 0;
    }
  }
  printf("]}\n");
  return 0;
}
