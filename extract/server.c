/* T1 extractor for C10: the finite tables the request path of coap_dispatch()/handle_request() consults, obtained by
 * *evaluating* libcoap's own functions of the current tree over their whole domain:
 *   critical     every odd option number 1..65535 that coap_option_check_critical() accepts on a fresh context
 *                (no registered options, no OSCORE context, Q-Block not enabled) in a CON GET carrying just that option
 *   nonrepeat    every option number 0..65535 for which coap_option_check_repeatable() returns 0
 *   codeok       every code 0..255 that coap_check_code_class() accepts on a UDP session
 *   unesc_path / unesc_query   every byte that coap_get_uri_path() / coap_get_query() copy without percent-escaping
 *                (static is_unescaped_in_path/_query: this TU includes src/coap_uri.c)
 *   phrases      coap_response_phrase() for every code
 *   filter_short / filter_long   capacity of a coap_opt_filter_t, measured with coap_option_filter_set()
 *   preset_res / preset_unk / preset_prx   bit m-1 set iff handler[m-1] != NULL right after coap_resource_init() /
 *                coap_resource_unknown_init2(h) / coap_resource_proxy_uri_init2(h, 1 name): the handlers the
 *                constructors register by themselves
 */
#include "coap_uri.c" /* through -I <repo>/src */

static void preset_h(coap_resource_t *r, coap_session_t *s, const coap_pdu_t *q, const coap_string_t *y, coap_pdu_t *p) {
  (void)r; (void)s; (void)q; (void)y; (void)p;
}
static unsigned preset_of(const coap_resource_t *r) {
  unsigned m = 0;
  if (!r) return 0xFFFFu;
  for (size_t i = 0; i < sizeof(r->handler) / sizeof(r->handler[0]); i++) if (r->handler[i]) m |= 1u << i;
  return m;
}

static void list_open(const char *name, int *first) { printf("%s\"%s\":[", *first ? "" : ",", name); *first = 0; }

int main(void) {
  coap_context_t *ctx;
  coap_session_t sess;
  int first = 1, f;
  coap_startup();
  coap_set_log_level(COAP_LOG_EMERG);
  ctx = coap_new_context(NULL);
  if (!ctx) return 2;
  memset(&sess, 0, sizeof sess);
  sess.context = ctx;
  sess.proto = COAP_PROTO_UDP;
  sess.type = COAP_SESSION_TYPE_SERVER;
  printf("{");
  list_open("critical", &first); f = 1;
  for (unsigned n = 1; n < 65536; n += 2) {
    coap_pdu_t *pdu = coap_pdu_init(COAP_MESSAGE_CON, COAP_REQUEST_CODE_GET, 1, 64);
    coap_opt_filter_t unknown;
    uint8_t tok = 1, v = 0;
    coap_add_token(pdu, 1, &tok);
    coap_add_option_internal(pdu, (coap_option_num_t)n, 1, &v);
    coap_option_filter_clear(&unknown);
    if (coap_option_check_critical(&sess, pdu, &unknown)) { printf("%s%u", f ? "" : ",", n); f = 0; }
    coap_delete_pdu(pdu);
  }
  printf("]");
  list_open("nonrepeat", &first); f = 1;
  for (unsigned n = 0; n < 65536; n++)
    if (!coap_option_check_repeatable((coap_option_num_t)n)) { printf("%s%u", f ? "" : ",", n); f = 0; }
  printf("]");
  list_open("codeok", &first); f = 1;
  for (unsigned c = 0; c < 256; c++) {
    coap_pdu_t pdu; memset(&pdu, 0, sizeof pdu); pdu.code = (coap_pdu_code_t)c;
    if (coap_check_code_class(&sess, &pdu)) { printf("%s%u", f ? "" : ",", c); f = 0; }
  }
  printf("]");
  list_open("unesc_path", &first); f = 1;
  for (unsigned c = 0; c < 256; c++) if (is_unescaped_in_path((uint8_t)c)) { printf("%s%u", f ? "" : ",", c); f = 0; }
  printf("]");
  list_open("unesc_query", &first); f = 1;
  for (unsigned c = 0; c < 256; c++) if (is_unescaped_in_query((uint8_t)c)) { printf("%s%u", f ? "" : ",", c); f = 0; }
  printf("]");
  list_open("phrases", &first); f = 1;
  for (unsigned c = 0; c < 256; c++) {
    const char *p = coap_response_phrase((unsigned char)c);
    if (p) {
      printf("%s[%u,[", f ? "" : ",", c); f = 0;
      for (size_t i = 0; p[i]; i++) printf("%s%u", i ? "," : "", (unsigned)(uint8_t)p[i]);
      printf("]]");
    }
  }
  printf("]");
  {
    coap_opt_filter_t flt; unsigned ns = 0, nl = 0;
    coap_option_filter_clear(&flt);
    for (unsigned n = 1; n < 200 && coap_option_filter_set(&flt, (coap_option_num_t)n); n++) ns++;
    for (unsigned n = 1000; n < 1200 && coap_option_filter_set(&flt, (coap_option_num_t)n); n++) nl++;
    printf(",\"filter_short\":%u,\"filter_long\":%u", ns, nl);
  }
  {
    const char *names[1] = { "p" };
    printf(",\"preset_res\":%u", preset_of(coap_resource_init(coap_make_str_const("x"), 0)));
    printf(",\"preset_unk\":%u", preset_of(coap_resource_unknown_init2(preset_h, 0)));
    printf(",\"preset_prx\":%u", preset_of(coap_resource_proxy_uri_init2(preset_h, 1, names, 0)));
  }
  printf("}\n");
  coap_free_context(ctx);
  return 0;
}
