/* T1 extractor for C11: the constants the Observe model depends on, evaluated against the current tree
 * (macros as the compiler sees them after coap_config.h; the initial retransmission timeout by calling
 * libcoap's own coap_calc_timeout() on a default UDP session with random byte 0 — the harness fixes the PRNG to 0). */
#include "coap3/coap_libcoap_build.h"
#include <stdio.h>

int main(void) {
  coap_context_t *ctx;
  coap_session_t *s;
  coap_address_t a;
  unsigned t0;
  coap_startup();
  coap_set_log_level(COAP_LOG_EMERG);
  ctx = coap_new_context(NULL);
  coap_address_init(&a);
  a.addr.sin.sin_family = AF_INET;
  a.addr.sin.sin_addr.s_addr = htonl(INADDR_LOOPBACK);
  a.addr.sin.sin_port = htons(5683);
  a.size = sizeof(struct sockaddr_in);
  s = coap_new_client_session(ctx, NULL, &a, COAP_PROTO_UDP);
  if (!s) return 1;
  t0 = coap_calc_timeout(s, 0);
  printf("{\"obsMaxNon\": %d, \"obsMaxFail\": %d, \"nstart\": %u, \"maxRetransmit\": %u, \"ackTimeoutTicks\": %u, "
         "\"ticksPerSecond\": %u, \"maxSubscribers\": %d, "
         "\"flagNotifyCon\": %d, \"flagNotifyNonAlways\": %d, ",
         (int)COAP_OBS_MAX_NON, (int)COAP_OBS_MAX_FAIL, (unsigned)COAP_NSTART(s), (unsigned)s->max_retransmit, t0,
         (unsigned)COAP_TICKS_PER_SECOND, (int)COAP_RESOURCE_MAX_SUBSCRIBER,
         (int)COAP_RESOURCE_FLAGS_NOTIFY_CON, (int)COAP_RESOURCE_FLAGS_NOTIFY_NON_ALWAYS);
  /* the Observe counter's successor function, by evaluation: a resource with a (dummy) subscriber list so that
   * coap_resource_notify_observers() takes its incrementing path */
  {
    static const unsigned pts[] = {0, 1, 2, 0x7FFFFE, 0x7FFFFF, 0x800000, 0xFFFFFD, 0xFFFFFE, 0xFFFFFF, 0x1000005, 0xFFFFFFFF};
    static coap_subscription_t dummy;
    coap_resource_t *r = coap_resource_init(coap_make_str_const("x"), 0);
    coap_resource_set_get_observable(r, 1);
    coap_add_resource(ctx, r);
    printf("\"obsNext\": [");
    for (unsigned i = 0; i < sizeof(pts) / sizeof(pts[0]); i++) {
      unsigned set, next;
      coap_persist_set_observe_num(r, pts[i]);
      set = r->observe;
      r->subscribers = &dummy;
      coap_resource_notify_observers(r, NULL);
      r->subscribers = NULL;
      next = r->observe;
      r->dirty = 0;
      printf("%s[%u, %u, %u]", i ? ", " : "", pts[i], set, next);
    }
    printf("]}\n");
    ctx->observe_pending = 0;
  }
  coap_session_release(s);
  coap_free_context(ctx);
  return 0;
}
