/* T1 extractor: coap_option_check_repeatable() evaluated over every option
 * number 0..65535, plus the constants the PDU-building model depends on.
 * Output: JSON. */
#include "coap3/coap_libcoap_build.h"
#include <stdio.h>

int main(void) {
  int first = 1;
  coap_startup();
  coap_set_log_level(COAP_LOG_EMERG);
  printf("{\"non_repeatable\":[");
  for (unsigned n = 0; n < 65536; n++) {
    if (!coap_option_check_repeatable((coap_option_num_t)n)) {
      printf("%s%u", first ? "" : ",", n);
      first = 0;
    }
  }
  printf("],\"token_ext_max\":%lu,\"max_pdu_rx\":%lu,\"max_hdr_size\":%d,\"tcp_ofs\":[%d,%d,%d],\"tok_bias\":[%d,%d],"
         "\"hop_limit\":%d,\"proxy_uri\":%d,\"proxy_scheme\":%d}\n",
         (unsigned long)COAP_TOKEN_EXT_MAX, (unsigned long)COAP_DEFAULT_MAX_PDU_RX_SIZE,
#if COAP_DEFAULT_MAX_PDU_RX_SIZE <= COAP_MAX_MESSAGE_SIZE_TCP16
         COAP_PDU_MAX_UDP_HEADER_SIZE,
#else
         COAP_PDU_MAX_TCP_HEADER_SIZE,
#endif
         COAP_MESSAGE_SIZE_OFFSET_TCP8, COAP_MESSAGE_SIZE_OFFSET_TCP16, COAP_MESSAGE_SIZE_OFFSET_TCP32,
         COAP_TOKEN_EXT_1B_BIAS, COAP_TOKEN_EXT_2B_BIAS,
         COAP_OPTION_HOP_LIMIT, COAP_OPTION_PROXY_URI, COAP_OPTION_PROXY_SCHEME);
  return 0;
}
