/* T1 (workstream T1X): the compile-time constants, enum values and struct sizes of the current tree that the Lean
 * models carry as hand-copied numerals.  Compiled against the working tree's headers on every check; prints one flat
 * JSON object name -> non-negative integer.  Rendered to lean/CoapVerif/Generated/Consts2.lean (namespace
 * Coap.Generated.C2); Props/CxxConsts.lean tie the models' literals to these names (`…_matches_code`).
 * Negative C constants are printed as their magnitude under a name ending in _NEG. */
#include "coap3/coap_libcoap_build.h"
#include "oscore/oscore_context.h"
#include "oscore/oscore_cose.h"
#include "oscore/oscore.h"
#include <limits.h>
#include <stdint.h>
#include <stdio.h>

static int first = 1;
static void P(const char *name, unsigned long long v) {
  printf("%s\"%s\": %llu", first ? "{" : ",\n ", name, v);
  first = 0;
}
#define M(x) P(#x, (unsigned long long)(x))

int main(void) {
  /* --- option filter (C03) */
  M(COAP_OPT_FILTER_LONG);
  M(COAP_OPT_FILTER_SHORT);
  P("optFilterShortMax", (1ULL << (8 * sizeof(((coap_opt_filter_t *)0)->short_opts[0]))) - 1);
  P("optFilterLongMax", (1ULL << (8 * sizeof(((coap_opt_filter_t *)0)->long_opts[0]))) - 1);
  P("optFilterMaskBits", 8 * sizeof(((coap_opt_filter_t *)0)->mask));
  M(COAP_PAYLOAD_START);
  /* --- stream / WebSocket reader (C05) */
  P("sizeofReadHeader", sizeof(((coap_session_t *)0)->read_header));
  M(COAP_RXBUFFER_SIZE);
  M(COAP_DEFAULT_MAX_PDU_RX_SIZE);
  M(COAP_PDU_MAX_TCP_HEADER_SIZE);
  M(COAP_PDU_MAX_UDP_HEADER_SIZE);
  M(COAP_DEFAULT_MTU);
#if COAP_WS_SUPPORT
  M(COAP_MAX_FS);
  P("wsHttpHdrSize", sizeof(((coap_ws_state_t *)0)->http_hdr));
  P("wsRdHeaderSize", sizeof(((coap_ws_state_t *)0)->rd_header));
  /* T1Y: frame header bits and opcodes (C01 write side) */
  M(WS_B0_FIN_BIT); M(WS_B0_OP_MASK); M(WS_B1_MASK_BIT); M(WS_B1_LEN_MASK); M(WS_OP_BINARY); M(WS_OP_CLOSE);
#endif
  /* --- transmission parameters (C06 C07 C08 C12 C19) */
  M(COAP_DEFAULT_MAX_RETRANSMIT);
  M(COAP_DEFAULT_NSTART);
  M(COAP_TICKS_PER_SECOND);
  P("ackTimeoutInt", (COAP_DEFAULT_ACK_TIMEOUT).integer_part);
  P("ackTimeoutFrac", (COAP_DEFAULT_ACK_TIMEOUT).fractional_part);
  P("ackRandomFactorInt", (COAP_DEFAULT_ACK_RANDOM_FACTOR).integer_part);
  P("ackRandomFactorFrac", (COAP_DEFAULT_ACK_RANDOM_FACTOR).fractional_part);
  M(COAP_DEFAULT_PROBING_RATE);
  M(COAP_DEFAULT_MAX_PAYLOADS);
  M(COAP_DEFAULT_NON_MAX_RETRANSMIT);
  P("nonTimeoutInt", (COAP_DEFAULT_NON_TIMEOUT).integer_part);
  P("nonReceiveTimeoutInt", (COAP_DEFAULT_NON_RECEIVE_TIMEOUT).integer_part);
  M(COAP_DEFAULT_MAX_LATENCY);
  M(COAP_DEFAULT_SESSION_TIMEOUT);
  M(COAP_PARTIAL_SESSION_TIMEOUT_TICKS);
  M(COAP_DEFAULT_MAX_HANDSHAKE_SESSIONS);
  P("COAP_INVALID_MID_NEG", (unsigned long long)(-(long long)COAP_INVALID_MID));
  P("COAP_PDU_DELAYED_NEG", (unsigned long long)(-(long long)COAP_PDU_DELAYED));
  P("midModulus", 1ULL << (8 * sizeof(((coap_pdu_t *)0)->mid) > 16 ? 16 : 8 * sizeof(((coap_pdu_t *)0)->mid)));
  /* --- protocols, session states / types, message types, NACK reasons, events */
  M(COAP_PROTO_NONE); M(COAP_PROTO_UDP); M(COAP_PROTO_DTLS); M(COAP_PROTO_TCP); M(COAP_PROTO_TLS);
  M(COAP_PROTO_WS); M(COAP_PROTO_WSS);
  M(COAP_SESSION_STATE_NONE); M(COAP_SESSION_STATE_CONNECTING); M(COAP_SESSION_STATE_HANDSHAKE);
  M(COAP_SESSION_STATE_CSM); M(COAP_SESSION_STATE_ESTABLISHED);
  M(COAP_SESSION_TYPE_CLIENT); M(COAP_SESSION_TYPE_SERVER); M(COAP_SESSION_TYPE_HELLO);
  M(COAP_MESSAGE_CON); M(COAP_MESSAGE_NON); M(COAP_MESSAGE_ACK); M(COAP_MESSAGE_RST);
  M(COAP_NACK_TOO_MANY_RETRIES); M(COAP_NACK_NOT_DELIVERABLE); M(COAP_NACK_RST); M(COAP_NACK_TLS_FAILED);
  M(COAP_NACK_ICMP_ISSUE); M(COAP_NACK_BAD_RESPONSE); M(COAP_NACK_TLS_LAYER_FAILED); M(COAP_NACK_WS_LAYER_FAILED);
  M(COAP_NACK_WS_FAILED);
  M(COAP_EVENT_SERVER_SESSION_NEW); M(COAP_EVENT_SERVER_SESSION_DEL); M(COAP_EVENT_PARTIAL_BLOCK);
  M(COAP_EVENT_SESSION_CONNECTED); M(COAP_EVENT_SESSION_CLOSED); M(COAP_EVENT_SESSION_FAILED);
  M(COAP_EVENT_WS_PACKET_SIZE); M(COAP_EVENT_WS_CONNECTED); M(COAP_EVENT_WS_CLOSED);
  /* --- request / response / signalling codes (C07 C10 C19) */
  M(COAP_EMPTY_CODE);
  M(COAP_REQUEST_CODE_GET); M(COAP_REQUEST_CODE_POST); M(COAP_REQUEST_CODE_PUT); M(COAP_REQUEST_CODE_DELETE);
  M(COAP_REQUEST_CODE_FETCH); M(COAP_REQUEST_CODE_PATCH); M(COAP_REQUEST_CODE_IPATCH);
  P("code201", COAP_RESPONSE_CODE(201)); P("code204", COAP_RESPONSE_CODE(204)); P("code205", COAP_RESPONSE_CODE(205));
  P("code231", COAP_RESPONSE_CODE(231));
  P("code400", COAP_RESPONSE_CODE(400)); P("code401", COAP_RESPONSE_CODE(401)); P("code402", COAP_RESPONSE_CODE(402));
  P("code404", COAP_RESPONSE_CODE(404)); P("code405", COAP_RESPONSE_CODE(405)); P("code408", COAP_RESPONSE_CODE(408));
  P("code413", COAP_RESPONSE_CODE(413)); P("code415", COAP_RESPONSE_CODE(415)); P("code429", COAP_RESPONSE_CODE(429));
  P("code500", COAP_RESPONSE_CODE(500)); P("code501", COAP_RESPONSE_CODE(501)); P("code502", COAP_RESPONSE_CODE(502));
  P("code503", COAP_RESPONSE_CODE(503)); P("code508", COAP_RESPONSE_CODE(508));
  P("classOf255", COAP_RESPONSE_CLASS(255));
  P("classOf64", COAP_RESPONSE_CLASS(64));
  M(COAP_SIGNALING_CODE_CSM); M(COAP_SIGNALING_CODE_PING); M(COAP_SIGNALING_CODE_PONG);
  M(COAP_SIGNALING_CODE_RELEASE); M(COAP_SIGNALING_CODE_ABORT);
  /* --- option numbers, media types */
  M(COAP_OPTION_IF_MATCH); M(COAP_OPTION_URI_HOST); M(COAP_OPTION_ETAG); M(COAP_OPTION_IF_NONE_MATCH);
  M(COAP_OPTION_OBSERVE); M(COAP_OPTION_URI_PORT); M(COAP_OPTION_LOCATION_PATH); M(COAP_OPTION_OSCORE);
  M(COAP_OPTION_URI_PATH); M(COAP_OPTION_CONTENT_FORMAT); M(COAP_OPTION_MAXAGE); M(COAP_OPTION_URI_QUERY);
  M(COAP_OPTION_HOP_LIMIT); M(COAP_OPTION_ACCEPT); M(COAP_OPTION_Q_BLOCK1); M(COAP_OPTION_LOCATION_QUERY);
  M(COAP_OPTION_BLOCK2); M(COAP_OPTION_BLOCK1); M(COAP_OPTION_SIZE2); M(COAP_OPTION_Q_BLOCK2);
  M(COAP_OPTION_PROXY_URI); M(COAP_OPTION_PROXY_SCHEME); M(COAP_OPTION_SIZE1); M(COAP_OPTION_ECHO);
  M(COAP_OPTION_NORESPONSE); M(COAP_OPTION_RTAG);
  M(COAP_MAX_OPT);
  M(COAP_MEDIATYPE_TEXT_PLAIN); M(COAP_MEDIATYPE_APPLICATION_LINK_FORMAT);
  M(COAP_MEDIATYPE_APPLICATION_MB_CBOR_SEQ);
  M(COAP_OBSERVE_ESTABLISH); M(COAP_OBSERVE_CANCEL);
  M(COAP_DEFAULT_PORT); M(COAPS_DEFAULT_PORT); M(COAP_DEFAULT_HOP_LIMIT);
  /* --- block-wise (C02 C09 C18) */
  M(COAP_RBLOCK_CNT);
  M(COAP_MAX_BLOCK_SZX);
  M(STATE_MAX_BLK_CNT_BITS);
  P("stateTokenBaseMask", STATE_TOKEN_BASE(0xffffffffffffffffULL));
  P("stateTokenRetryOfMax", STATE_TOKEN_RETRY(0xffffffffffffffffULL));
  M(COAP_BLOCK_USE_LIBCOAP); M(COAP_BLOCK_SINGLE_BODY); M(COAP_BLOCK_TRY_Q_BLOCK); M(COAP_BLOCK_USE_M_Q_BLOCK);
  M(COAP_BLOCK_NO_PREEMPTIVE_RTAG);
  M(COAP_BLOCK_MAX_SIZE_MASK); M(COAP_BLOCK_MAX_SIZE_SHIFT);
  P("blockMaxSizeGetOfAll", COAP_BLOCK_MAX_SIZE_GET(0xffffffffU));
  /* --- resources / observe / async / link-format (C10 C11 C20) */
  M(COAP_RESOURCE_FLAGS_NOTIFY_NON); M(COAP_RESOURCE_FLAGS_NOTIFY_CON); M(COAP_RESOURCE_FLAGS_NOTIFY_NON_ALWAYS);
  M(COAP_RESOURCE_FLAGS_HAS_MCAST_SUPPORT); M(COAP_RESOURCE_FLAGS_LIB_DIS_MCAST_DELAYS);
  M(COAP_RESOURCE_FLAGS_LIB_ENA_MCAST_SUPPRESS_2_05); M(COAP_RESOURCE_FLAGS_LIB_ENA_MCAST_SUPPRESS_2_XX);
  M(COAP_RESOURCE_FLAGS_LIB_DIS_MCAST_SUPPRESS_4_XX); M(COAP_RESOURCE_FLAGS_LIB_DIS_MCAST_SUPPRESS_5_XX);
  M(COAP_RESOURCE_FLAGS_OSCORE_ONLY); M(COAP_RESOURCE_HANDLE_WELLKNOWN_CORE);
  M(COAP_RESOURCE_MAX_SUBSCRIBER);
  M(COAP_OBS_MAX_NON); M(COAP_OBS_MAX_FAIL);
  M(COAP_PRINT_STATUS_MASK); M(COAP_PRINT_STATUS_MAX); M(COAP_PRINT_STATUS_ERROR);
  P("UINT_MAX", UINT_MAX);
  P("coapTickModulusBits", 8 * sizeof(coap_tick_t));
  /* --- OSCORE (C14 C15) */
  M(OSCORE_SEQ_MAX);
  M(COAP_OSCORE_DEFAULT_REPLAY_WINDOW);
  P("aesCcmTagLen", cose_tag_len(COSE_ALGORITHM_AES_CCM_16_64_128));
  M(COSE_ALGORITHM_AES_CCM_16_64_128_TAG_LEN);
  P("slidingWindowBits", 8 * sizeof(((oscore_recipient_ctx_t *)0)->sliding_window));
  P("replayWindowSizeBits", 8 * sizeof(((oscore_ctx_t *)0)->replay_window_size));
  M(OSCORE_SEND_NO_IV); M(OSCORE_SEND_PARTIAL_IV);
  /* --- persist file records (C17) */
  P("sizeofPtr", sizeof(void *));
  P("sizeofProto", sizeof(coap_proto_t));
  P("sizeofAddress", sizeof(coap_address_t));
  P("sizeofAddrTuple", sizeof(coap_addr_tuple_t));
  P("sizeofSsize", sizeof(ssize_t));
  P("sizeofSize", sizeof(size_t));
  /* --- thread-safe lock depth counter (C13) */
#if COAP_THREAD_SAFE
  P("lockCountBits", 8 * sizeof(((coap_lock_t *)0)->lock_count));
  P("lockInCallbackBits", 8 * sizeof(((coap_lock_t *)0)->in_callback));
#endif
  /* --- T1Y: PDU header / token / option encoding macros (C01 C04), resource flags and block modes (C10), COSE (C14) */
  M(COAP_TOKEN_DEFAULT_MAX); M(COAP_TOKEN_EXT_MAX);
  M(COAP_TOKEN_EXT_1B_TKL); M(COAP_TOKEN_EXT_2B_TKL); M(COAP_TOKEN_EXT_1B_BIAS); M(COAP_TOKEN_EXT_2B_BIAS);
  M(COAP_MESSAGE_SIZE_OFFSET_TCP8); M(COAP_MESSAGE_SIZE_OFFSET_TCP16); M(COAP_MESSAGE_SIZE_OFFSET_TCP32);
  M(COAP_MAX_MESSAGE_SIZE_TCP0); M(COAP_MAX_MESSAGE_SIZE_TCP8); M(COAP_MAX_MESSAGE_SIZE_TCP16);
  M(COAP_DEFAULT_VERSION);
  P("optNumModulus", 1ULL << (8 * sizeof(coap_option_num_t)));
  P("maxOptModulus", 1ULL << (8 * sizeof(((coap_pdu_t *)0)->max_opt)));
  P("code000", COAP_RESPONSE_CODE(0)); P("code200", COAP_RESPONSE_CODE(200));
  P("code203", COAP_RESPONSE_CODE(203)); P("code202", COAP_RESPONSE_CODE(202)); P("code412", COAP_RESPONSE_CODE(412));
  P("uint32Modulus", 1ULL << 32);
  /* T1Y: URI schemes (C16) */
  M(COAP_URI_SCHEME_COAP); M(COAP_URI_SCHEME_COAPS); M(COAP_URI_SCHEME_COAP_TCP); M(COAP_URI_SCHEME_COAPS_TCP);
  M(COAP_URI_SCHEME_HTTP); M(COAP_URI_SCHEME_HTTPS); M(COAP_URI_SCHEME_COAP_WS); M(COAP_URI_SCHEME_COAPS_WS);
  M(COAP_URI_SCHEME_LAST); M(COAP_URI_SCHEME_SECURE_MASK);
  P("UINT16_MAX", UINT16_MAX);
  P("uriPortModulus", 1ULL << (8 * sizeof(((coap_uri_t *)0)->port)));
  M(COAP_RESOURCE_FLAGS_FORCE_SINGLE_BODY);
  M(COAP_BLOCK_STLESS_FETCH); M(COAP_BLOCK_STLESS_BLOCK2); M(COAP_BLOCK_NOT_RANDOM_BLOCK1);
  P("failCntModulus", 1ULL << (8 * sizeof(((coap_subscription_t *)0)->fail_cnt)));
  P("nonCntBits", 8 * sizeof(((coap_subscription_t *)0)->non_cnt));
  M(COSE_ALGORITHM_AES_CCM_16_64_128);
  M(COSE_ALGORITHM_AES_CCM_16_64_128_KEY_LEN); M(COSE_ALGORITHM_AES_CCM_16_64_128_NONCE_LEN);
  P("aesCcmKeyLen", cose_key_len(COSE_ALGORITHM_AES_CCM_16_64_128));
  P("aesCcmNonceLen", cose_nonce_len(COSE_ALGORITHM_AES_CCM_16_64_128));
  M(OSCORE_DECRYPTION_ERROR);
  printf("}\n");
  return 0;
}
